//go:build verif

package props

import (
	"bytes"
	"encoding/json"
	"fmt"
	"sort"
	"strings"
	"testing"

	"pgregory.net/rapid"

	host "github.com/bianjieai/tibc-go/modules/tibc/core/24-host"
	ethtypes "github.com/bianjieai/tibc-go/modules/tibc/light-clients/09-eth/types"

	"verifharness/sim"
	"verifharness/world"
)

// C16Case: a history, then the export / re-import of chain 0, then a continuation applied to both.
type C16Case struct {
	N    int      `json:"n"`
	Hist []sim.Op `json:"hist"`
	Cont []sim.Op `json:"cont"`
}

var profileC16Hist = []kindW{{"mocksend", 5}, {"nftsend", 5}, {"mtsend", 4}, {"round", 8}, {"flow", 5}, {"clean", 4}, {"cleanflow", 4}, {"update", 3},
	{"slashheight", 2}, {"commit", 1}, {"rules", 1}, {"nftmint", 1}, {"mtmint", 1}, {"replay", 1}, {"burst", 1}, {"bscupd", 3}, {"ethupd", 2}}

var profileC16Cont = []kindW{{"nftsend", 4}, {"mtsend", 3}, {"round", 6}, {"flow", 6}, {"recv", 3}, {"ack", 3}, {"clean", 3}, {"cleanflow", 3}, {"stale", 3},
	{"replay", 4}, {"update", 3}, {"commit", 1}, {"nftxfer", 1}, {"recvclean", 2}, {"bscupd", 3}, {"ethupd", 2}}

func genC16(t *rapid.T) C16Case {
	return C16Case{
		N:    rapid.IntRange(2, 3).Draw(t, "n"),
		Hist: rapid.SliceOfN(opGenAB(profileC16Hist, 5), 10, 40).Draw(t, "hist"),
		Cont: rapid.SliceOfN(opGenAB(profileC16Cont, 5), 4, 25).Draw(t, "cont"),
	}
}

// keyClass names the kind of a tibc / transfer store key for reporting.
func keyClass(store string, key []byte) string {
	k := string(key)
	if store == "NFT" {
		if len(key) > 0 && key[0] == 0x01 {
			return "voucher-class-trace"
		}
		return "transfer-store-other"
	}
	switch {
	case strings.HasPrefix(k, "clean/"):
		return "clean-point"
	case strings.HasPrefix(k, "maxAckSeq/"):
		return "max-acknowledged-sequence"
	case strings.HasPrefix(k, "clients/") && strings.Contains(k, "/iterateConsensusStates"):
		return "tendermint-iteration-key"
	case strings.HasPrefix(k, "clients/") && strings.HasSuffix(k, "/processedTime"):
		return "tendermint-processed-time"
	case strings.HasPrefix(k, "clients/") && strings.Contains(k, "/consensusStates/"):
		return "consensus-state"
	case strings.HasPrefix(k, "clients/") && strings.Contains(k, "/recentSingers"):
		return "bsc-recent-signers"
	case strings.HasPrefix(k, "clients/") && strings.Contains(k, "/pendingValidators"):
		return "bsc-pending-validators"
	case strings.HasPrefix(k, "clients/") && strings.Contains(k, "/ethHeaderIndex"):
		return "eth-header-index"
	case strings.HasPrefix(k, "clients/") && strings.Contains(k, "/ethRootMain"):
		return "eth-root-index"
	case strings.HasPrefix(k, "clients/") && strings.HasSuffix(k, "/clientState"):
		return "client-state"
	case strings.HasPrefix(k, "commitments/"):
		return "packet-commitment"
	case strings.HasPrefix(k, "receipts/"):
		return "packet-receipt"
	case strings.HasPrefix(k, "acks/"):
		return "packet-acknowledgement"
	case strings.HasPrefix(k, "nextSequenceSend/"):
		return "next-sequence-send"
	case strings.HasPrefix(k, "relayers"):
		return "relayer-registry"
	case strings.Contains(k, "routing") || strings.Contains(k, "rules"):
		return "routing-rules"
	}
	return "other"
}

func slashInHeight(key []byte) bool {
	k := string(key)
	i := strings.Index(k, "/consensusStates/")
	if i < 0 {
		return false
	}
	rest := key[i+len("/consensusStates/"):]
	if len(rest) < 16 {
		return false
	}
	return bytes.IndexByte(rest[:16], '/') >= 0
}

type storeDiff struct {
	Class string
	Key   []byte
	Old   []byte // value on the original chain (nil: absent)
	New   []byte // value on the re-imported chain
}

func diffChains(x, y *world.Chain, store string) []storeDiff {
	a, b := x.Dump(store, x.Height), y.Dump(store, y.Height)
	var out []storeDiff
	i, j := 0, 0
	for i < len(a) || j < len(b) {
		switch {
		case j >= len(b) || (i < len(a) && bytes.Compare(a[i].K, b[j].K) < 0):
			out = append(out, storeDiff{keyClass(store, a[i].K), a[i].K, a[i].V, nil})
			i++
		case i >= len(a) || bytes.Compare(a[i].K, b[j].K) > 0:
			out = append(out, storeDiff{keyClass(store, b[j].K), b[j].K, nil, b[j].V})
			j++
		default:
			if !bytes.Equal(a[i].V, b[j].V) {
				out = append(out, storeDiff{keyClass(store, a[i].K), a[i].K, a[i].V, b[j].V})
			}
			i++
			j++
		}
	}
	return out
}

func checkC16(c C16Case, col *Collector) outcome {
	n := c.N
	if n < 2 {
		n = 2
	}
	if n > 3 {
		n = 3
	}
	w := world.New(world.Config{N: n})
	s := sim.New(w)
	x := w.Chains[w.Order[0]]
	ethtypes.SkipSealCheck = true
	defer func() { ethtypes.SkipSealCheck = false }()
	fc, fv := newForeignClients(w, x)
	if fv != nil {
		fv.Property = "C16"
		return outcome{V: fv}
	}
	// BSC / ETH client updates are not simulator operations: route them to the helper
	run := func(ops []sim.Op) outcome {
		for _, op := range ops {
			switch op.K {
			case "bscupd":
				fc.bscUpdate(op)
			case "ethupd":
				fc.ethUpdate(op)
			default:
				if v := s.Apply(op); v != nil {
					return outcome{V: v, Trace: s.Trace}
				}
			}
		}
		return outcome{}
	}
	// a fixed prefix makes sure the exported chain has a clean point, a delivered inbound transfer (voucher
	// class trace), a pending commitment and a consensus state at height 47
	rich := []sim.Op{
		{K: "mocksend", A: 0, B: 0}, {K: "round", A: 0}, {K: "clean", A: 0, C: 0},
		{K: "nftsend", A: 1, B: 0, C: 0, D: 0, U: 0}, {K: "round", A: 1},
		{K: "mtsend", A: 1, B: 0, C: 0, D: 0, U: 0}, {K: "round", A: 2},
		{K: "mocksend", A: 0, B: 0}, {K: "slashheight", A: 0, B: 0},
		{K: "bscupd", D: 3, B: 1}, {K: "bscupd", D: 2, B: 2}, {K: "ethupd"}, {K: "ethupd", A: 1},
	}
	if out := run(append(append(tokenPreamble(n), rich...), c.Hist...)); out.V != nil {
		return out
	}
	v := func(sig, format string, a ...any) outcome {
		return outcome{V: &sim.Violation{Property: "C16", Sig: sig, Msg: fmt.Sprintf(format, a...)}, Trace: tail(s.Trace, 15)}
	}
	known := func(sig string) bool { return col.known["C16:"+sig] }
	noteKnown := func(sig, msg string) {
		col.Known[sig]++
		if _, ok := col.KnownExample[sig]; !ok {
			col.KnownExample[sig] = msg
		}
	}
	// ---- export and re-import ------------------------------------------------------------------
	exported, err := x.App.ModuleManager.ExportGenesisForModules(x.Ctx(), x.App.AppCodec(), []string{"tibc", "nft", "mt"})
	if err != nil {
		return v("export-failed", "export failed: %v", err)
	}
	override := map[string]json.RawMessage{}
	for k, bz := range exported {
		override[k] = bz
	}
	var others []string
	for _, o := range world.ChainNames {
		if o != x.Name {
			others = append(others, o)
		}
	}
	var y *world.Chain
	func() {
		defer func() {
			if r := recover(); r != nil {
				err = fmt.Errorf("panic: %v", r)
			}
		}()
		y = world.NewChainWithLog(w, world.ChainConfig{Name: x.Name, RelayersFor: others, GenesisOverride: override}, false)
	}()
	if y == nil {
		return v("import-failed", "starting a chain from the exported state failed: %v", err)
	}
	// what the exported state contained
	xd := x.Dump(host.StoreKey, x.Height)
	classes := map[string]int{}
	for _, kv := range xd {
		classes[keyClass(host.StoreKey, kv.K)]++
	}
	for cl, cnt := range classes {
		col.Labels["exported:"+cl] += cnt
	}
	nSlash := 0
	for _, kv := range xd {
		if slashInHeight(kv.K) {
			nSlash++
		}
	}
	if nSlash > 0 {
		col.Label("state-with-0x2f-in-a-height")
	}
	// ---- state equality right after the import ------------------------------------------------
	restore := 0
	for _, store := range []string{host.StoreKey, "NFT"} {
		diffs := diffChains(x, y, store)
		sort.Slice(diffs, func(i, j int) bool { return diffs[i].Class < diffs[j].Class })
		for _, d := range diffs {
			sig := "lost-on-import/" + d.Class
			if d.Old == nil {
				sig = "invented-on-import/" + d.Class
			} else if d.New != nil {
				sig = "changed-on-import/" + d.Class
			}
			if slashInHeight(d.Key) && d.New == nil {
				sig = "lost-on-import/" + d.Class + "-with-0x2f-in-height"
			}
			msg := fmt.Sprintf("store %s key %q: original %x, re-imported %x", store, d.Key, trunc16(d.Old), trunc16(d.New))
			if !known(sig) {
				return v(sig, "%s", msg)
			}
			noteKnown(sig, msg)
			restore++
		}
	}
	if restore > 0 {
		// put the keys covered by recorded findings back so that the continuation can still diverge for new reasons
		ctx := y.Ctx()
		for _, store := range []string{host.StoreKey, "NFT"} {
			st := ctx.KVStore(y.App.GetKey(store))
			for _, d := range diffChains(x, y, store) {
				if d.Old == nil {
					st.Delete(d.Key)
				} else {
					st.Set(d.Key, d.Old)
				}
			}
		}
		y.CommitEmptyAt(w.Now())
		col.Excluded["keys-restored-after-known-import-loss"] += restore
	}
	if tx, ty := sim.SnapTokens(x), sim.SnapTokens(y); !tx.Equal(ty) {
		return v("token-state-differs-after-import", "token state after import differs: original [%s] re-imported [%s]", tx, ty)
	}
	// ---- the same continuation on both ---------------------------------------------------------
	x.Mirror = y
	defer func() { x.Mirror = nil }()
	contStart := len(s.Steps)
	s.Checkers = []func(*sim.Sim, *sim.Step) *sim.Violation{func(_ *sim.Sim, st *sim.Step) *sim.Violation {
		if st.Chain != x.Name || st.Res == nil || x.MirrorRes == nil || st.HAfter <= st.HBefore {
			return nil
		}
		col.Label("mirrored-message")
		if (st.Res.Code == 0) != (x.MirrorRes.Code == 0) {
			return &sim.Violation{Property: "C16", Sig: "continuation-diverged/" + st.Kind,
				Msg: fmt.Sprintf("the re-imported chain reacted differently: original %s; re-imported code %d log %s", st.Describe(), x.MirrorRes.Code, trimStr(x.MirrorRes.Log, 200))}
		}
		return nil
	}}
	out := run(c.Cont)
	col.AddLabels(fc.Labels)
	if out.V != nil {
		out.Trace = tail(s.Trace, 15)
		return out
	}
	for _, store := range []string{host.StoreKey, "NFT"} {
		for _, d := range diffChains(x, y, store) {
			return v("state-diverged-after-continuation/"+d.Class, "after the same continuation store %s key %q: original %x, re-imported %x", store, d.Key, trunc16(d.Old), trunc16(d.New))
		}
	}
	if tx, ty := sim.SnapTokens(x), sim.SnapTokens(y); !tx.Equal(ty) {
		return v("token-state-diverged-after-continuation", "token state differs: original [%s] re-imported [%s]", tx, ty)
	}
	_ = contStart
	// non-trivial: a clean point, a pending commitment, a voucher class and a client with >= 3 consensus states were exported
	if classes["clean-point"] > 0 && classes["packet-commitment"] > 0 && classes["consensus-state"] >= 3 {
		hasTrace := false
		for _, kv := range x.Dump("NFT", x.Height) {
			if len(kv.K) > 0 && kv.K[0] == 0x01 {
				hasTrace = true
			}
		}
		if hasTrace {
			col.MarkNontrivial(map[string]any{"n": n, "exported_key_classes": classes, "history_tail": tail(s.Trace[:minInt(len(s.Trace), contStart+5)], 8)})
		}
	}
	return outcome{}
}

func trunc16(b []byte) []byte {
	if len(b) > 16 {
		return b[:16]
	}
	return b
}

func TestC16(t *testing.T) {
	runProp(t, "C16",
		"case = a history on 2-3 chains (10-40 ops: packets in every stage on mock/NFT/MT ports over direct and relayed routes, cleans and their propagation, client updates incl. one that records a consensus state at height 47 = 0x2f, bursts of >=9 packets, rule changes), then chain 0 is exported with ModuleManager.ExportGenesisForModules(tibc, nft, mt) (the transfer modules define no genesis), a fresh chain is started from the deterministic genesis with those sections replaced, and a generated continuation (4-25 ops: client updates, receives, acks, cleans, receive-cleans, stale and replayed messages, transfers) is applied to both chains message by message in blocks with equal block times; oracle = byte equality of the tibc and transfer stores right after the import (every differing key is reported with its class), equality of the token snapshots, identical accept/reject of every continuation message, and byte equality of both stores after the continuation; keys whose loss is a recorded finding are counted, restored on the copy and the comparison continues; non-trivial = exported state with >=1 clean point, >=1 pending commitment, >=1 voucher class trace and >=3 consensus states",
		genC16, checkC16)
}
