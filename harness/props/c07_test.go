package props

import (
	"bytes"
	"fmt"
	"testing"
	"time"

	"github.com/cometbft/cometbft/crypto/ed25519"
	cmttypes "github.com/cometbft/cometbft/types"
	"pgregory.net/rapid"

	clienttypes "github.com/bianjieai/tibc-go/modules/tibc/core/02-client/types"
	commitmenttypes "github.com/bianjieai/tibc-go/modules/tibc/core/23-commitment/types"
	ibctm "github.com/bianjieai/tibc-go/modules/tibc/light-clients/07-tendermint/types"

	"verifharness/sim"
	"verifharness/world"
)

// C07Case: a client configuration and a list of update attempts, all small integers.
type C07Case struct {
	Powers     []int64      `json:"powers"`      // validator pool (index = validator id)
	TrustLevel int          `json:"trust_level"` // index into trustLevels
	Period     int64        `json:"period_s"`    // trusting period, seconds
	UpgradeAt  int          `json:"upgrade_at"`  // before attempt #UpgradeAt the client is upgraded to revision 2 (-1: never)
	UpgradeH   int64        `json:"upgrade_h"`   // height of the revision-2 consensus state installed by the upgrade
	Attempts   []C07Attempt `json:"attempts"`
}

type C07Attempt struct {
	Trusted    int   `json:"trusted"`   // index into the stored heights (mod), -1 => a height that is not stored
	DH         int64 `json:"dh"`        // new height = trusted height + DH (may be <= 0)
	TimeKind   int   `json:"time_kind"` // 0 normal, 1 == trusted time, 2 trusted-1ns, 3 now+drift-1ns, 4 now+drift, 5 now+drift+1s
	NowKind    int   `json:"now_kind"`  // 0 shortly after, 1 expiry-1ns (of the trusted state), 2 expiry, 3 expiry+1ns, 4 mid period, 5 expiry of the latest state -1ns / 6 at it
	ValsKind   int   `json:"vals_kind"` // 0 = the trusted next set, 1 rotated (one member replaced), 2 disjoint, 3 re-weighted
	NextKind   int   `json:"next_kind"` // next validator set of the new header: 0 same as its set, 1 rotated
	SignKind   int   `json:"sign_kind"` // which subset signs, see pickSigners
	SignArg    int   `json:"sign_arg"`
	TrustVals  int   `json:"trust_vals"`  // 0 right set, 1 wrong set, 2 right set with one power changed
	Revision   int   `json:"revision"`    // 0 same, 1 header chain-id of another revision, 2 trusted height with another revision
	CorruptSig int   `json:"corrupt_sig"` // 0 none, k>0: flip a bit in the k-th present signature
	ChainID    int   `json:"chain_id"`    // 0 right, 1 other chain id
}

var trustLevels = []ibctm.Fraction{{Numerator: 1, Denominator: 3}, {Numerator: 1, Denominator: 2}, {Numerator: 2, Denominator: 3}, {Numerator: 3, Denominator: 4}, {Numerator: 1, Denominator: 1}}

const c07ChainID = "lcchain-1"
const c07Drift = 10 * time.Second

var c07Base = time.Date(2024, 3, 1, 12, 0, 0, 123456789, time.UTC)

func genC07(t *rapid.T) C07Case {
	c := C07Case{TrustLevel: rapid.IntRange(0, len(trustLevels)-1).Draw(t, "tl"), Period: rapid.SampledFrom([]int64{100, 3600, 86400}).Draw(t, "period")}
	n := rapid.IntRange(2, 9).Draw(t, "nvals")
	switch rapid.IntRange(0, 4).Draw(t, "dist") {
	case 0:
		for i := 0; i < n; i++ {
			c.Powers = append(c.Powers, 1)
		}
	case 1:
		c.Powers = append(c.Powers, int64(2*n))
		for i := 1; i < n; i++ {
			c.Powers = append(c.Powers, 1)
		}
	case 2:
		c.Powers = []int64{34, 33, 33, 1, 1, 1}[:min(n, 6)]
	case 3:
		c.Powers = []int64{2, 1, 1, 1, 1}[:min(n, 5)]
	default:
		for i := 0; i < n; i++ {
			c.Powers = append(c.Powers, rapid.Int64Range(1, 10).Draw(t, "p"))
		}
	}
	c.UpgradeAt = -1
	if rapid.IntRange(0, 3).Draw(t, "upg") == 3 {
		c.UpgradeAt = rapid.IntRange(0, 3).Draw(t, "upgAt")
		c.UpgradeH = rapid.SampledFrom([]int64{1, 5, 11, 30}).Draw(t, "upgH")
	}
	na := rapid.IntRange(1, 6).Draw(t, "nattempts")
	for i := 0; i < na; i++ {
		a := C07Attempt{
			Trusted:  rapid.SampledFrom([]int{0, 1, 2, 3, 4, 0, 1, 2, -1}).Draw(t, "trusted"),
			DH:       rapid.SampledFrom([]int64{1, 1, 1, 2, 3, 7, 1, 2, 5, 0, -1}).Draw(t, "dh"),
			ValsKind: rapid.SampledFrom([]int{0, 0, 0, 1, 2, 3}).Draw(t, "vk"),
			NextKind: rapid.IntRange(0, 1).Draw(t, "nk"),
			SignKind: rapid.SampledFrom([]int{0, 2, 3, 4, 5, 0, 2, 4, 6, 7, 1}).Draw(t, "sk"),
			SignArg:  rapid.IntRange(0, 8).Draw(t, "sa"),
		}
		if rapid.IntRange(0, 3).Draw(t, "tkOn") == 3 {
			a.TimeKind = rapid.IntRange(1, 5).Draw(t, "tk")
		}
		if rapid.IntRange(0, 3).Draw(t, "nowOn") == 3 {
			a.NowKind = rapid.IntRange(1, 6).Draw(t, "nowk")
		}
		if rapid.IntRange(0, 7).Draw(t, "tvOn") == 7 {
			a.TrustVals = rapid.IntRange(1, 2).Draw(t, "tv")
		}
		if rapid.IntRange(0, 14).Draw(t, "revOn") == 14 {
			a.Revision = rapid.IntRange(1, 2).Draw(t, "rev")
		}
		if rapid.IntRange(0, 9).Draw(t, "corrOn") == 9 {
			a.CorruptSig = rapid.IntRange(1, 4).Draw(t, "corr")
		}
		if rapid.IntRange(0, 19).Draw(t, "cidOn") == 19 {
			a.ChainID = 1
		}
		c.Attempts = append(c.Attempts, a)
	}
	return c
}

type c07Val struct {
	pv  cmttypes.PrivValidator
	pub cmttypes.Validator
}

var c07Keys = func() []cmttypes.PrivValidator {
	var out []cmttypes.PrivValidator
	for i := 0; i < 24; i++ {
		out = append(out, cmttypes.NewMockPVWithParams(ed25519.GenPrivKeyFromSecret([]byte(fmt.Sprintf("verif/c07/%d", i))), false, false))
	}
	return out
}()

// c07Set builds a validator set from validator ids and powers.
func c07Set(ids []int, powers map[int]int64) (*cmttypes.ValidatorSet, map[string]cmttypes.PrivValidator) {
	var vals []*cmttypes.Validator
	signers := map[string]cmttypes.PrivValidator{}
	for _, id := range ids {
		pk, _ := c07Keys[id].GetPubKey()
		vals = append(vals, cmttypes.NewValidator(pk, powers[id]))
		signers[pk.Address().String()] = c07Keys[id]
	}
	return cmttypes.NewValidatorSet(vals), signers
}

type c07State struct {
	time     time.Time
	nextIDs  []int
	nextPows map[int]int64
}

func allSigners() map[string]cmttypes.PrivValidator {
	m := map[string]cmttypes.PrivValidator{}
	for _, pv := range c07Keys {
		pk, _ := pv.GetPubKey()
		m[pk.Address().String()] = pv
	}
	return m
}

// pickSigners chooses the signing subset (indices into vs.Validators) by kind:
// 0 all, 1 none, 2 smallest subset with >2/3, 3 largest subset with <=2/3, 4 smallest subset of trusted
// members exceeding the trust level, 5 largest subset of trusted members not exceeding it (plus all
// non-members), 6 first arg+1 validators, 7 all but arg-th.
func pickSigners(vs *cmttypes.ValidatorSet, trusted *cmttypes.ValidatorSet, tl ibctm.Fraction, kind, arg int) map[int]bool {
	n := len(vs.Validators)
	out := map[int]bool{}
	total := vs.TotalVotingPower()
	switch kind {
	case 0:
		for i := 0; i < n; i++ {
			out[i] = true
		}
	case 1:
	case 2, 3:
		var sum int64
		for i := 0; i < n; i++ {
			p := vs.Validators[i].VotingPower
			if kind == 2 {
				if 3*sum > 2*total {
					break
				}
				out[i] = true
				sum += p
			} else if 3*(sum+p) <= 2*total {
				out[i] = true
				sum += p
			}
		}
	case 4, 5:
		ttot := trusted.TotalVotingPower()
		var sum int64
		for i := 0; i < n; i++ {
			_, tv := trusted.GetByAddress(vs.Validators[i].Address)
			if tv == nil {
				out[i] = kind == 5 || arg%2 == 0
				continue
			}
			p := tv.VotingPower
			if kind == 4 {
				if int64(tl.Denominator)*sum > int64(tl.Numerator)*ttot {
					continue
				}
				out[i] = true
				sum += p
			} else if int64(tl.Denominator)*(sum+p) <= int64(tl.Numerator)*ttot {
				out[i] = true
				sum += p
			}
		}
	case 6:
		for i := 0; i < n && i <= arg; i++ {
			out[i] = true
		}
	default:
		for i := 0; i < n; i++ {
			out[i] = i != arg%n
		}
	}
	return out
}

func checkC07(c C07Case, col *Collector) outcome {
	ch := singleChain()
	ctx, _ := ch.Branch()
	k := ch.App.TIBCKeeper.ClientKeeper
	const name = "lc-chain-c07"
	v := func(sig, format string, a ...any) outcome {
		return outcome{V: &sim.Violation{Property: "C07", Sig: sig, Msg: fmt.Sprintf(format, a...)}}
	}
	if len(c.Powers) < 1 {
		return outcome{}
	}
	pows := map[int]int64{}
	var ids []int
	for i, p := range c.Powers {
		if p < 1 {
			p = 1
		}
		pows[i] = p
		ids = append(ids, i)
	}
	tl := trustLevels[mod(c.TrustLevel, len(trustLevels))]
	period := time.Duration(c.Period) * time.Second
	if period <= 0 {
		period = 100 * time.Second
	}
	// initial client at height 10
	initSet, _ := c07Set(ids, pows)
	h0 := int64(10)
	cs := ibctm.NewClientState(c07ChainID, tl, period, period*2, c07Drift, clienttypes.NewHeight(1, uint64(h0)),
		commitmenttypes.GetSDKSpecs(), world.Prefix, 0)
	cons0 := &ibctm.ConsensusState{Timestamp: c07Base, Root: commitmenttypes.NewMerkleRoot([]byte("root-10")), NextValidatorsHash: initSet.Hash()}
	ctx = ctx.WithBlockTime(c07Base.Add(time.Second))
	if err := k.CreateClient(ctx, name, cs, cons0); err != nil {
		return v("setup", "create client failed: %v", err)
	}
	type rh struct {
		rev uint64
		h   int64
	}
	less := func(a, b rh) bool { return a.rev < b.rev || (a.rev == b.rev && a.h < b.h) }
	stored := map[rh]*c07State{{1, h0}: {time: c07Base, nextIDs: ids, nextPows: pows}}
	latest := rh{1, h0}
	now := c07Base.Add(time.Second)
	freshID := len(c.Powers) // ids of validators not in the pool, used for rotation

	for ai, a := range c.Attempts {
		if ai == c.UpgradeAt && latest.rev == 1 {
			// governance upgrade to the next revision: new chain id, new latest height, one consensus state
			uh := c.UpgradeH
			if uh < 1 {
				uh = 1
			}
			lt := stored[latest]
			ucs := ibctm.NewClientState("lcchain-2", tl, period, period*2, c07Drift, clienttypes.NewHeight(2, uint64(uh)),
				commitmenttypes.GetSDKSpecs(), world.Prefix, 0)
			nset, _ := c07Set(lt.nextIDs, lt.nextPows)
			ucons := &ibctm.ConsensusState{Timestamp: lt.time.Add(time.Second), Root: commitmenttypes.NewMerkleRoot([]byte("root-upgrade")), NextValidatorsHash: nset.Hash()}
			if err := k.UpgradeClient(ctx.WithBlockTime(now), name, ucs, ucons); err != nil {
				return v("setup", "upgrade failed: %v", err)
			}
			latest = rh{2, uh}
			stored[latest] = &c07State{time: lt.time.Add(time.Second), nextIDs: lt.nextIDs, nextPows: lt.nextPows}
			col.Label("client-upgraded-to-next-revision")
		}
		// stored heights in ascending order
		var hs []rh
		for h := range stored {
			hs = append(hs, h)
		}
		for i := 1; i < len(hs); i++ {
			for j := i; j > 0 && less(hs[j], hs[j-1]); j-- {
				hs[j], hs[j-1] = hs[j-1], hs[j]
			}
		}
		var th int64
		trev := latest.rev
		var ts *c07State
		if a.Trusted < 0 {
			th = latest.h + 100 // not stored
		} else {
			key := hs[mod(a.Trusted, len(hs))]
			th, trev = key.h, key.rev
			ts = stored[key]
		}
		newH := th + a.DH
		if newH < 1 {
			newH = 1
		}
		// base time for the new header: later than the trusted state, proportional to height distance
		baseT := c07Base
		if ts != nil {
			baseT = ts.time
		}
		latestT := stored[latest].time

		// the block time ("now")
		switch a.NowKind {
		case 0:
			now = maxTime(baseT, latestT).Add(3 * time.Second)
		case 1:
			now = baseT.Add(period).Add(-time.Nanosecond)
		case 2:
			now = baseT.Add(period)
		case 3:
			now = baseT.Add(period).Add(time.Nanosecond)
		case 4:
			now = maxTime(latestT, baseT).Add(period / 2)
		case 5:
			now = latestT.Add(period).Add(-time.Nanosecond)
		default:
			now = latestT.Add(period)
		}
		hdrTime := baseT.Add(time.Duration(maxI64(a.DH, 1)) * time.Second)
		switch a.TimeKind {
		case 1:
			hdrTime = baseT
		case 2:
			hdrTime = baseT.Add(-time.Nanosecond)
		case 3:
			hdrTime = now.Add(c07Drift).Add(-time.Nanosecond)
		case 4:
			hdrTime = now.Add(c07Drift)
		case 5:
			hdrTime = now.Add(c07Drift).Add(time.Second)
		}
		// validator set of the new header
		tIDs, tPows := ids, pows
		if ts != nil {
			tIDs, tPows = ts.nextIDs, ts.nextPows
		}
		nIDs := append([]int{}, tIDs...)
		nPows := copyPows(tPows)
		switch a.ValsKind {
		case 1:
			nIDs[mod(a.SignArg, len(nIDs))] = freshID % len(c07Keys)
			nPows[freshID%len(c07Keys)] = tPows[tIDs[mod(a.SignArg, len(tIDs))]]
			freshID++
		case 2:
			nIDs = nil
			for i := 0; i < len(tIDs); i++ {
				id := (freshID + i) % len(c07Keys)
				nIDs = append(nIDs, id)
				nPows[id] = 1 + int64(i%3)
			}
			freshID += len(tIDs)
		case 3:
			nPows[nIDs[mod(a.SignArg, len(nIDs))]] += 5
		}
		nIDs = dedup(nIDs)
		newSet, _ := c07Set(nIDs, nPows)
		nextIDs, nextPows := nIDs, nPows
		if a.NextKind == 1 {
			nextIDs = append([]int{}, nIDs...)
			nextPows = copyPows(nPows)
			id := freshID % len(c07Keys)
			freshID++
			nextIDs[mod(a.SignArg+1, len(nextIDs))] = id
			nextPows[id] = 2
			nextIDs = dedup(nextIDs)
		}
		nextSet, _ := c07Set(nextIDs, nextPows)
		trustedSet, _ := c07Set(tIDs, tPows)
		supplied := trustedSet
		switch a.TrustVals {
		case 1:
			supplied = newSetOther(tIDs, tPows, freshID)
		case 2:
			p2 := copyPows(tPows)
			p2[tIDs[0]] += 1
			supplied, _ = c07Set(tIDs, p2)
		}
		signIdx := pickSigners(newSet, trustedSet, tl, a.SignKind, a.SignArg)
		hdrRev := trev
		if a.Revision == 1 {
			hdrRev = 3 - trev // the other revision
		}
		clientChain := fmt.Sprintf("lcchain-%d", hdrRev) // the client's chain id with the header's revision
		hdrChain := clientChain
		if a.ChainID == 1 {
			hdrChain = "otherchain-1"
		}
		appHash := []byte(fmt.Sprintf("app-hash-%d-%d", newH, ai))
		hdr := world.MakeTMHeader(hdrChain, newH, hdrTime, appHash, newSet, nextSet, allSigners(), signIdx)
		trustedHeight := clienttypes.NewHeight(trev, uint64(th))
		if a.Revision == 2 {
			if stored[rh{3 - trev, th}] != nil {
				col.Excluded["same-numeric-height-stored-in-both-revisions"]++
				continue
			}
			trev = 3 - trev
			trustedHeight = clienttypes.NewHeight(trev, uint64(th))
			ts = nil
		}
		hdr.TrustedHeight = trustedHeight
		sp, err := supplied.ToProto()
		if err != nil {
			return outcome{}
		}
		hdr.TrustedValidators = sp
		corrupted := false
		if a.CorruptSig > 0 {
			kth := 0
			for i := range hdr.SignedHeader.Commit.Signatures {
				sg := &hdr.SignedHeader.Commit.Signatures[i]
				if len(sg.Signature) > 0 {
					kth++
					if kth == a.CorruptSig {
						sg.Signature[3] ^= 0x10
						corrupted = true
					}
				}
			}
		}

		// ---- the oracle: plain arithmetic over the generated objects -------------------------------
		reason := ""
		reject := func(r string) {
			if reason == "" {
				reason = r
			}
		}
		var signedOwn, signedTrusted int64
		for i, val := range newSet.Validators {
			if signIdx[i] {
				signedOwn += val.VotingPower
				if _, tv := supplied.GetByAddress(val.Address); tv != nil {
					signedTrusted += tv.VotingPower
				}
			}
		}
		adjacent := newH == th+1
		_ = trev
		switch {
		case ts == nil:
			reject("trusted-height-not-stored")
		case !bytes.Equal(supplied.Hash(), trustedSet.Hash()):
			reject("trusted-validators-mismatch")
		case hdrRev != trev:
			reject("revision-mismatch")
		case newH <= th:
			reject("height-not-newer")
		}
		if reason == "" {
			switch {
			case !now.Before(latestT.Add(period)):
				reject("client-expired")
			case !now.Before(ts.time.Add(period)):
				reject("trusted-state-expired")
			case hdrChain != clientChain:
				reject("chain-id")
			case !hdrTime.After(ts.time):
				reject("time-not-after-trusted")
			case !hdrTime.Before(now.Add(c07Drift)):
				reject("time-in-future")
			case adjacent && !bytes.Equal(newSet.Hash(), trustedSet.Hash()):
				reject("adjacent-validators-mismatch")
			case !adjacent && !(int64(tl.Denominator)*signedTrusted > int64(tl.Numerator)*supplied.TotalVotingPower()):
				reject("trust-level-not-reached")
			case !(3*signedOwn > 2*newSet.TotalVotingPower()):
				reject("two-thirds-not-reached")
			}
		}
		excluded := false
		if reason == "" && adjacent && 3*int64(tl.Numerator) > 2*int64(tl.Denominator) &&
			!(int64(tl.Denominator)*signedOwn > int64(tl.Numerator)*newSet.TotalVotingPower()) {
			// trust level above 2/3 on an adjacent header: the statement and CometBFT's adjacent rule differ
			excluded = true
			col.Excluded["adjacent-header-with-trust-level-above-two-thirds"]++
		}

		// ---- run the implementation ---------------------------------------------------------------
		cctx, write := ctx.WithBlockTime(now).CacheContext()
		uerr := k.UpdateClient(cctx, name, hdr)
		accepted := uerr == nil
		col.Label("attempt")
		if reason == "" {
			col.Label("oracle-accept")
		} else {
			col.Label("oracle-reject:" + reason)
		}
		if !corrupted && !excluded {
			if accepted && reason != "" {
				return v("accepted-invalid-header/"+reason, "attempt %d (%+v): accepted although the rule says reject (%s); trusted h=%d newH=%d now=%v hdrTime=%v signedOwn=%d/%d signedTrusted=%d/%d tl=%d/%d",
					ai, a, reason, th, newH, now.UnixNano(), hdrTime.UnixNano(), signedOwn, newSet.TotalVotingPower(), signedTrusted, supplied.TotalVotingPower(), tl.Numerator, tl.Denominator)
			}
			if !accepted && reason == "" {
				return v("rejected-valid-header", "attempt %d (%+v): rejected although the rule says accept: %v; trusted h=%d newH=%d signedOwn=%d/%d signedTrusted=%d/%d",
					ai, a, uerr, th, newH, signedOwn, newSet.TotalVotingPower(), signedTrusted, supplied.TotalVotingPower())
			}
		}
		if corrupted {
			col.Label("corrupted-signature")
			// one-sided: with the corrupted signature removed from the tally the thresholds must still hold for acceptance
			if accepted && reason != "" {
				return v("accepted-invalid-header/"+reason+"/corrupt-sig", "attempt %d accepted with a corrupted signature although the rule rejects even with all signatures counted (%s)", ai, reason)
			}
		}
		if !accepted {
			continue
		}
		write()
		// effects of acceptance
		rctx := ctx.WithBlockTime(now)
		got, ok := k.GetClientConsensusState(rctx, name, clienttypes.NewHeight(hdrRev, uint64(newH)))
		if !ok {
			return v("consensus-state-missing", "attempt %d accepted but no consensus state at height %d", ai, newH)
		}
		tmc := got.(*ibctm.ConsensusState)
		if !tmc.Timestamp.Equal(hdrTime) || !bytes.Equal(tmc.Root.Hash, appHash) || !bytes.Equal(tmc.NextValidatorsHash, nextSet.Hash()) {
			return v("consensus-state-wrong", "attempt %d: stored consensus state %v does not match the header (time %v, app hash %q)", ai, tmc, hdrTime, appHash)
		}
		csNow, _ := k.GetClientState(rctx, name)
		wantLatest := latest
		if less(latest, rh{hdrRev, newH}) {
			wantLatest = rh{hdrRev, newH}
		}
		if csNow.GetLatestHeight().GetRevisionHeight() != uint64(wantLatest.h) || csNow.GetLatestHeight().GetRevisionNumber() != wantLatest.rev {
			return v("latest-height-wrong", "attempt %d: latest height %s, want %d-%d (was %d-%d, header %d-%d)", ai, csNow.GetLatestHeight(), wantLatest.rev, wantLatest.h, latest.rev, latest.h, hdrRev, newH)
		}
		if hdrRev != latest.rev {
			col.Label("accepted-update-in-previous-revision")
		}
		if _, ok := ibctm.GetProcessedTime(k.ClientStore(rctx, name), clienttypes.NewHeight(hdrRev, uint64(newH))); !ok {
			return v("processed-time-missing", "attempt %d: no processed-time metadata for height %d", ai, newH)
		}
		latest = wantLatest
		stored[rh{hdrRev, newH}] = &c07State{time: hdrTime, nextIDs: nextIDs, nextPows: nextPows}
		// states the client pruned are no longer available as trusted heights
		for h := range stored {
			if !k.HasClientConsensusState(rctx, name, clienttypes.NewHeight(h.rev, uint64(h.h))) {
				delete(stored, h)
				col.Label("pruned-state")
			}
		}
		if _, ok := stored[latest]; !ok {
			return v("latest-state-pruned", "the consensus state of the latest height %d-%d is gone", latest.rev, latest.h)
		}
		// non-trivial: decided within one validator's power or 1ns of a time bound
		if a.SignKind >= 2 && a.SignKind <= 5 || a.TimeKind == 3 || a.TimeKind == 4 || a.NowKind == 1 || a.NowKind == 5 {
			col.MarkNontrivial(c)
		}
	}
	for _, a := range c.Attempts {
		if a.SignKind >= 2 && a.SignKind <= 5 || (a.TimeKind >= 1 && a.TimeKind <= 4) || (a.NowKind >= 1 && a.NowKind <= 3) || a.NowKind >= 5 {
			col.MarkNontrivial(c)
			break
		}
	}
	return outcome{}
}

func newSetOther(ids []int, pows map[int]int64, fresh int) *cmttypes.ValidatorSet {
	var o []int
	p := map[int]int64{}
	for i := range ids {
		id := (fresh + 7 + i) % len(c07Keys)
		o = append(o, id)
		p[id] = 1
	}
	s, _ := c07Set(dedup(o), p)
	return s
}

func dedup(xs []int) []int {
	seen := map[int]bool{}
	var out []int
	for _, x := range xs {
		if !seen[x] {
			seen[x] = true
			out = append(out, x)
		}
	}
	return out
}

func copyPows(m map[int]int64) map[int]int64 {
	o := map[int]int64{}
	for k, v := range m {
		o[k] = v
	}
	return o
}

func sortInt64(a []int64) {
	for i := 1; i < len(a); i++ {
		for j := i; j > 0 && a[j] < a[j-1]; j-- {
			a[j], a[j-1] = a[j-1], a[j]
		}
	}
}

func maxTime(a, b time.Time) time.Time {
	if a.After(b) {
		return a
	}
	return b
}

func maxI64(a, b int64) int64 {
	if a > b {
		return a
	}
	return b
}

func mod(i, n int) int {
	if n <= 0 {
		return 0
	}
	i %= n
	if i < 0 {
		i += n
	}
	return i
}

func TestC07(t *testing.T) {
	runProp(t, "C07",
		"case = validator pool with threshold-hitting power distributions (equal, whale, 34/33/33, 2/1/1.., random), trust level in {1/3,1/2,2/3,3/4,1}, trusting period, then 1-6 update attempts against the evolving client: trusted height = any stored one or a missing one, new height adjacent / non-adjacent / equal / lower, header time at the trusted time, 1ns before it, 1ns before / at / after now+drift, block time 1ns before / at / after the expiry of the trusted state and of the latest state, validator set = trusted next set / one member replaced / disjoint / re-weighted, next set rotated, signer subset chosen as the smallest subset above or the largest subset not above 2/3 (own set) or the trust level (trusted set), supplied trusted validators right / wrong / re-weighted, other revision, other chain id, one corrupted signature; headers are really signed (ed25519 over canonical votes); oracle = exact integer comparisons (3*signed > 2*total, den*signed > num*total), time comparisons to the nanosecond, and on acceptance the stored consensus state == (time, app hash, next-validators hash), latest height == max, processed-time metadata present; adjacent headers under trust levels above 2/3 are generated but not asserted (counted as excluded); with a corrupted signature only 'accepted although the rule rejects even with every signature counted' is an error; non-trivial = a case containing an attempt decided within one validator's power of a threshold or within 1ns of a time bound",
		genC07, checkC07)
}
