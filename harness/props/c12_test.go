package props

import (
	"strings"
	"sync"
	"testing"

	sdk "github.com/cosmos/cosmos-sdk/types"
	authtypes "github.com/cosmos/cosmos-sdk/x/auth/types"
	govtypes "github.com/cosmos/cosmos-sdk/x/gov/types"
	"pgregory.net/rapid"

	host "github.com/bianjieai/tibc-go/modules/tibc/core/24-host"
	routingtypes "github.com/bianjieai/tibc-go/modules/tibc/core/26-routing/types"

	"verifharness/sim"
	"verifharness/world"
)

// C12Case: a rule list, whether the rules key is first deleted, and triples to authenticate.
type C12Case struct {
	Rules   []string    `json:"rules"`
	Unset   bool        `json:"unset,omitempty"`
	Via     int         `json:"via"` // 0 keeper, 1 MsgSetRoutingRules through the msg router
	Triples [][3]string `json:"triples"`
}

const idAlphabet = "abcxyzABZ019._+-#[]<>"

var metaFields = []string{"a+b", "[ab]c", "a.b", "<x>", "x-", "a+", "[a-z]", "a#b", "x_y", "[", "]", "a]b", "b+c+", "...", "a-", "[]", "<>", "+", "."}

func genField(t *rapid.T) string {
	switch rapid.IntRange(0, 9).Draw(t, "fk") {
	case 0, 1:
		return "*"
	case 2, 3, 4:
		return rapid.SampledFrom(metaFields).Draw(t, "meta")
	case 5:
		n := rapid.SampledFrom([]int{1, 2, 63, 64}).Draw(t, "len")
		return strings.Repeat(rapid.SampledFrom([]string{"a", "+", ".", "]"}).Draw(t, "ch"), n)
	default:
		n := rapid.IntRange(1, 5).Draw(t, "n")
		var b strings.Builder
		for i := 0; i < n; i++ {
			b.WriteByte(idAlphabet[rapid.IntRange(0, len(idAlphabet)-1).Draw(t, "c")])
		}
		return b.String()
	}
}

func genBadField(t *rapid.T) string {
	return rapid.SampledFrom([]string{"", "**", "a*", "*a", "a b", "a/b", "a\n", "\n", "é", "a,b", strings.Repeat("a", 65), "a\\b", "a$", "^a", "(a)", "a|b", "a?", "{a}", "a\x00"}).Draw(t, "bad")
}

func genRule(t *rapid.T) string {
	k := rapid.IntRange(0, 19).Draw(t, "shape")
	n := 3
	switch k {
	case 0:
		n = 2
	case 1:
		n = 4
	case 2:
		n = 1
	}
	fs := make([]string, n)
	for i := range fs {
		fs[i] = genField(t)
	}
	if k == 3 || k == 4 {
		fs[rapid.IntRange(0, n-1).Draw(t, "badpos")] = genBadField(t)
	}
	r := strings.Join(fs, ",")
	switch k {
	case 5:
		r += "\n"
	case 6:
		r = " " + r
	case 7:
		r += ","
	}
	return r
}

// regexReadings returns strings that a regular-expression reading of the field would match
// although they are different identifiers.
func regexReadings(f string) []string {
	var out []string
	for i := 1; i < len(f); i++ {
		if f[i] == '+' {
			out = append(out, f[:i]+string(f[i-1])+f[i+1:]) // "a+b" -> "aab"
			out = append(out, f[:i]+f[i+1:])                // "a+b" -> "ab"
		}
	}
	if i := strings.IndexByte(f, '['); i >= 0 {
		if j := strings.IndexByte(f[i:], ']'); j > 1 {
			out = append(out, f[:i]+string(f[i+1])+f[i+j+1:]) // "[ab]c" -> "ac"
		}
	}
	for i := 0; i < len(f); i++ {
		if f[i] == '.' {
			out = append(out, f[:i]+"x"+f[i+1:]) // "a.b" -> "axb"
		}
	}
	return out
}

func validID(s string) bool {
	if len(s) < 1 || len(s) > 64 {
		return false
	}
	for i := 0; i < len(s); i++ {
		c := s[i]
		ok := (c >= 'a' && c <= 'z') || (c >= 'A' && c <= 'Z') || (c >= '0' && c <= '9') || strings.IndexByte("._+-#[]<>", c) >= 0
		if !ok {
			return false
		}
	}
	return true
}

func validRule(r string) bool {
	fs := strings.Split(r, ",")
	if len(fs) != 3 {
		return false
	}
	for _, f := range fs {
		if f != "*" && !validID(f) {
			return false
		}
	}
	return true
}

func modelAuth(rules []string, tr [3]string) bool {
	for _, r := range rules {
		fs := strings.Split(r, ",")
		if len(fs) != 3 {
			continue
		}
		ok := true
		for i := 0; i < 3; i++ {
			if fs[i] != "*" && fs[i] != tr[i] {
				ok = false
			}
		}
		if ok {
			return true
		}
	}
	return false
}

func genC12(t *rapid.T) C12Case {
	c := C12Case{Via: rapid.IntRange(0, 1).Draw(t, "via"), Unset: rapid.IntRange(0, 9).Draw(t, "unset") == 0}
	nr := rapid.IntRange(0, 4).Draw(t, "nrules")
	for i := 0; i < nr; i++ {
		c.Rules = append(c.Rules, genRule(t))
	}
	// triples: exact hits, regexp readings, one-character edits, random identifiers
	var pool []string
	for _, r := range c.Rules {
		for _, f := range strings.Split(r, ",") {
			if validID(f) {
				pool = append(pool, f)
				pool = append(pool, regexReadings(f)...)
			}
		}
	}
	pool = append(pool, "a", "ab", "aab", "ac", "x")
	var valid []string
	for _, p := range pool {
		if validID(p) {
			valid = append(valid, p)
		}
	}
	nt := rapid.IntRange(1, 6).Draw(t, "ntriples")
	for i := 0; i < nt; i++ {
		var tr [3]string
		for j := 0; j < 3; j++ {
			if rapid.IntRange(0, 4).Draw(t, "rnd") == 0 {
				f := genField(t)
				if f == "*" {
					f = "star"
				}
				tr[j] = f
			} else {
				tr[j] = rapid.SampledFrom(valid).Draw(t, "tf")
			}
		}
		c.Triples = append(c.Triples, tr)
	}
	return c
}

var (
	c12Once  sync.Once
	c12Chain *world.Chain
)

func singleChain() *world.Chain {
	c12Once.Do(func() {
		w := world.New(world.Config{N: 2})
		c12Chain = w.Chains[w.Order[0]]
	})
	return c12Chain
}

func checkC12(c C12Case, col *Collector) outcome {
	ch := singleChain()
	ctx, _ := ch.Branch()
	k := ch.App.TIBCKeeper.RoutingKeeper
	store := ctx.KVStore(ch.App.GetKey(host.StoreKey))
	if c.Unset {
		store.Delete(host.RoutingRulesKey())
	}
	before := store.Get(host.RoutingRulesKey())
	wantOK := true
	for _, r := range c.Rules {
		if !validRule(r) {
			wantOK = false
		}
	}
	var err error
	if c.Via == 0 {
		err = k.SetRoutingRules(ctx, c.Rules)
	} else {
		authority := authtypes.NewModuleAddress(govtypes.ModuleName).String()
		msg := &routingtypes.MsgSetRoutingRules{Title: "t", Description: "d", Rules: c.Rules, Authority: authority}
		if verr := msg.ValidateBasic(); verr != nil {
			err = verr
		} else {
			h := ch.App.MsgServiceRouter().Handler(msg)
			_, err = h(ctx, msg)
		}
	}
	v := func(sig, m string) outcome { return outcome{V: &sim.Violation{Property: "C12", Sig: sig, Msg: m}} }
	if (err == nil) != wantOK {
		if wantOK {
			return v("valid-rules-rejected", "valid rule list "+strings.Join(quoteAll(c.Rules), " ")+" rejected: "+err.Error())
		}
		return v("invalid-rules-accepted", "invalid rule list accepted: "+strings.Join(quoteAll(c.Rules), " "))
	}
	var eff []string
	if err == nil {
		eff = c.Rules
	} else {
		after := store.Get(host.RoutingRulesKey())
		if string(after) != string(before) {
			return v("rejected-set-changed-rules", "a rejected rule list changed the stored rules")
		}
		if before != nil {
			eff, _ = k.GetRoutingRules(ctx)
		}
	}
	got, _ := k.GetRoutingRules(ctx)
	if err == nil && strings.Join(got, "\x00") != strings.Join(c.Rules, "\x00") {
		return v("stored-rules-differ", "stored rules differ from the accepted list")
	}
	meta := false
	for _, r := range eff {
		if strings.ContainsAny(r, "+[].") {
			meta = true
		}
	}
	for _, tr := range c.Triples {
		want := modelAuth(eff, tr)
		gotA := k.Authenticate(ctx, tr[0], tr[1], tr[2])
		if want != gotA {
			sig := "literal-triple-refused"
			if gotA {
				sig = "non-matching-triple-authorised"
			}
			return v(sig, "rules "+strings.Join(quoteAll(eff), " ")+" triple "+strings.Join(tr[:], ",")+": authorised="+boolStr(gotA)+", literal field match says "+boolStr(want))
		}
		if meta {
			// a triple that differs from a rule only where a regexp reading would differ
			for _, r := range eff {
				fs := strings.Split(r, ",")
				if len(fs) != 3 {
					continue
				}
				for i := 0; i < 3; i++ {
					for _, alt := range regexReadings(fs[i]) {
						if alt == tr[i] {
							col.Label("regexp-reading-triple")
							col.MarkNontrivial(c)
						}
					}
					if fs[i] == tr[i] && strings.ContainsAny(fs[i], "+[].") {
						col.Label("literal-meta-hit")
						col.MarkNontrivial(c)
					}
				}
			}
		}
	}
	if !wantOK {
		col.Label("invalid-rule-list")
	}
	if c.Unset {
		col.Label("rules-unset")
	}
	if len(eff) == 0 {
		col.Label("no-rules-effective")
	}
	return outcome{}
}

func quoteAll(xs []string) []string {
	out := make([]string, len(xs))
	for i, x := range xs {
		out[i] = "\"" + strings.ReplaceAll(x, "\n", "\\n") + "\""
	}
	return out
}

func boolStr(b bool) string {
	if b {
		return "true"
	}
	return "false"
}

func TestC12(t *testing.T) {
	runProp(t, "C12",
		"case = rule list (0-4 rules, fields weighted towards regexp metacharacters + [ ] . and towards '*', lengths 1/64/65, malformed shapes: 1/2/4 fields, empty field, '**', illegal bytes, trailing newline, leading space, trailing comma) set through the keeper or through MsgSetRoutingRules on the msg router, optionally after deleting the rules key, + 1-6 triples built from the rules' own fields, from strings a regexp reading would match (a+b->aab, [ab]c->ac, a.b->axb) and random identifiers; oracle = independent split-and-compare implementation of validity and of field-wise match with '*'; non-trivial = effective rule with one of + [ ] . together with a triple that equals it literally or differs only where a regexp reading would differ",
		genC12, checkC12)
}

var _ = sdk.AccAddress{}
