//go:build verif

package props

import (
	"fmt"
	"time"

	"github.com/ethereum/go-ethereum/common"
	"github.com/ethereum/go-ethereum/crypto"

	clienttypes "github.com/bianjieai/tibc-go/modules/tibc/core/02-client/types"
	bsctypes "github.com/bianjieai/tibc-go/modules/tibc/light-clients/08-bsc/types"
	ethtypes "github.com/bianjieai/tibc-go/modules/tibc/light-clients/09-eth/types"

	"verifharness/lcgen"
	"verifharness/sim"
	"verifharness/world"
)

const (
	c20BSC = "bsc-testnet01"
	c20ETH = "eth-testnet01"
)

// foreignClients puts a BSC client (5 validators, epoch 6) and an ETH client (synthetic genesis, seal hook on)
// on one chain of a world and feeds them MsgUpdateClient transactions.
type foreignClients struct {
	w         *world.World
	a         *world.Chain
	pm        *parliaModel
	fresh     int
	ethLatest *ethtypes.Header
	Labels    map[string]int
}

const fcEpoch = 6

func newForeignClients(w *world.World, a *world.Chain) (*foreignClients, *sim.Violation) {
	var set0 []common.Address
	for i := 0; i < 5; i++ {
		set0 = append(set0, c17Keys[i].Addr)
	}
	set0 = lcgen.SortAddrs(set0)
	bgen := lcgen.NewParliaHeader(fcEpoch*2, common.HexToHash("0x01"), set0[0], 2, 30_000_000, 0, uint64(world.GenesisTime.Unix()), crypto.Keccak256Hash([]byte("r0")), set0)
	lcgen.Seal(bgen, c17ChainID, keyOf(set0[0]))
	var vb [][]byte
	for _, x := range set0 {
		vb = append(vb, x.Bytes())
	}
	egen := lcgen.EthGenesis(500, uint64(world.GenesisTime.Unix()), 30_000_000, 15_000_000, 3_000_000, 1_000_000_000)
	ctx := a.Ctx()
	k := a.App.TIBCKeeper.ClientKeeper
	if err := k.CreateClient(ctx, c20BSC, &bsctypes.ClientState{Header: *bgen, ChainId: c17ChainID, Epoch: fcEpoch, BlockInteval: 3, Validators: vb,
		ContractAddress: common.HexToAddress("0x10").Bytes(), TrustingPeriod: 1 << 40},
		&bsctypes.ConsensusState{Timestamp: bgen.Time, Number: bgen.Height, Root: bgen.Root}); err != nil {
		return nil, &sim.Violation{Property: "setup", Sig: "setup", Msg: err.Error()}
	}
	if err := k.CreateClient(ctx, c20ETH, &ethtypes.ClientState{Header: *egen, ChainId: 1, ContractAddress: common.HexToAddress("0x10").Bytes(), TrustingPeriod: 1 << 40},
		&ethtypes.ConsensusState{Timestamp: egen.Time, Number: egen.Height, Root: egen.Root}); err != nil {
		return nil, &sim.Violation{Property: "setup", Sig: "setup", Msg: err.Error()}
	}
	rel := []string{a.Accounts[world.RelayerIdx].Addr.String()}
	k.RegisterRelayers(ctx, c20BSC, rel)
	k.RegisterRelayers(ctx, c20ETH, rel)
	a.CommitEmpty(1)
	return &foreignClients{w: w, a: a, pm: &parliaModel{latest: bgen, vals: set0, pending: set0, sealers: map[uint64]common.Address{}, epoch: fcEpoch},
		fresh: 5, ethLatest: egen, Labels: map[string]int{}}, nil
}

// bscUpdate submits 2..5 consecutive headers (the first may be invalid when op.C%5 == 4).
func (f *foreignClients) bscUpdate(op sim.Op) {
	a, pm := f.a, f.pm
	relayer := a.Accounts[world.RelayerIdx]
	for rep := 0; rep < 2+mod(op.D, 4); rep++ {
		parent := pm.latest
		num := parent.Height.RevisionHeight + 1
		N := len(pm.vals)
		elig := pm.eligible(num)
		inturn := pm.vals[num%uint64(N)]
		signer := elig[mod(op.A, len(elig))]
		for _, e := range elig {
			if e == inturn && op.A%2 == 0 {
				signer = e
			}
		}
		diff := uint64(1)
		if signer == inturn {
			diff = 2
		}
		var listed []common.Address
		if num%fcEpoch == 0 {
			listed = append([]common.Address{}, pm.vals...)
			switch mod(op.B, 3) {
			case 1:
				listed = append(listed, c17Keys[f.fresh%len(c17Keys)].Addr)
				f.fresh++
			case 2:
				if len(listed) > 2 {
					listed = listed[:len(listed)-1]
				}
			}
			listed = dedupAddrs(listed)
		}
		hdr := lcgen.NewParliaHeader(num, parent.Hash(), signer, diff, parent.GasLimit, 100, parent.Time+3, crypto.Keccak256Hash([]byte(fmt.Sprintf("r%d", num))), listed)
		if mod(op.C, 5) == 4 && rep == 0 {
			hdr.Difficulty = 3 - diff
		}
		lcgen.Seal(hdr, c17ChainID, keyOf(signer))
		msg, err := clienttypes.NewMsgUpdateClient(c20BSC, hdr, relayer.Addr)
		if err != nil {
			return
		}
		res := a.Deliver(relayer, msg)
		if res.Code == 0 {
			f.Labels["bsc-update-accepted"]++
			pm.sealers[num] = signer
			pm.latest = hdr
			if num%fcEpoch == 0 {
				pm.pending = lcgen.SortAddrs(listed)
			}
			if num%fcEpoch == uint64(N/2) {
				if !sameAddrs(pm.vals, pm.pending) {
					f.Labels["bsc-validator-set-changed"]++
				}
				pm.vals = pm.pending
			}
		} else {
			f.Labels["bsc-update-rejected"]++
		}
	}
}

func (f *foreignClients) ethUpdate(op sim.Op) {
	a := f.a
	relayer := a.Accounts[world.RelayerIdx]
	// block intervals: mostly 12 s, sometimes 1 s, sometimes long gaps (the difficulty adjustment saturates at -99
	// from 900 s on); gas used at / just above / far above the target
	dt := []uint64{12, 12, 1, 1000, 5000, 12}[mod(op.D, 6)]
	used := []uint64{f.ethLatest.GasLimit / 2, f.ethLatest.GasLimit/2 + 1, f.ethLatest.GasLimit, 0}[mod(op.B, 4)]
	hdr := lcgen.EthChild(f.ethLatest, f.ethLatest.Time+dt, f.ethLatest.GasLimit, used, crypto.Keccak256Hash([]byte(fmt.Sprintf("e%d", f.ethLatest.Height.RevisionHeight))), byte(op.A))
	if mod(op.C, 5) == 4 {
		hdr.BaseFee = "7"
	}
	// the chain's block time must not lag the header time by more than 15 s
	if lag := int64(hdr.Time) - f.w.Now().Unix(); lag > 0 {
		f.w.Advance(time.Duration(lag) * time.Second)
	}
	msg, err := clienttypes.NewMsgUpdateClient(c20ETH, hdr, relayer.Addr)
	if err != nil {
		return
	}
	if res := a.Deliver(relayer, msg); res.Code == 0 {
		f.Labels["eth-update-accepted"]++
		f.ethLatest = hdr
	} else {
		f.Labels["eth-update-rejected"]++
	}
}
