package props

import (
	"bytes"
	"crypto/sha256"
	"encoding/json"
	"fmt"
	"math/big"
	"testing"
	"time"

	sdk "github.com/cosmos/cosmos-sdk/types"
	"github.com/ethereum/go-ethereum/common"
	"github.com/ethereum/go-ethereum/crypto"
	"pgregory.net/rapid"

	clienttypes "github.com/bianjieai/tibc-go/modules/tibc/core/02-client/types"
	commitmenttypes "github.com/bianjieai/tibc-go/modules/tibc/core/23-commitment/types"
	host "github.com/bianjieai/tibc-go/modules/tibc/core/24-host"
	"github.com/bianjieai/tibc-go/modules/tibc/core/exported"
	ibctm "github.com/bianjieai/tibc-go/modules/tibc/light-clients/07-tendermint/types"
	bsctypes "github.com/bianjieai/tibc-go/modules/tibc/light-clients/08-bsc/types"
	ethtypes "github.com/bianjieai/tibc-go/modules/tibc/light-clients/09-eth/types"

	"verifharness/lcgen"
	"verifharness/sim"
	"verifharness/world"
)

// C08Case: a key/value history of the counterparty (two committed versions), a client configuration
// and a list of verification queries.
type C08Case struct {
	Client  string     `json:"client"` // tm | bsc | eth
	Entries []C08Entry `json:"entries"`
	Split   int        `json:"split"`           // entries[:split] exist in the first version already
	Gap     uint64     `json:"gap"`             // latest client height = second version's height + gap
	Below   int        `json:"below,omitempty"` // != 0: the latest height lies *below* the second recorded root (the client moved to a shorter branch)
	Delay   uint64     `json:"delay"`           // tm: seconds; eth: blocks; bsc: validator count (delay blocks = 2n/3+1)
	Queries []C08Query `json:"queries"`
}

type C08Entry struct {
	Kind int    `json:"kind"` // 0 commitment, 1 ack, 2 clean point
	Src  int    `json:"src"`
	Dst  int    `json:"dst"`
	Seq  uint64 `json:"seq"`
	Val  int    `json:"val"` // value selector
}

type C08Query struct {
	Entry  int `json:"entry"`  // which entry is asked about (mod); Absent shifts its sequence / channel
	Absent int `json:"absent"` // 0 the entry itself, 1 other sequence, 2 other channel, 3 other kind
	Claim  int `json:"claim"`  // 0 the stored value, 1 one bit flipped, 2 another entry's value, 3 value+1 (clean) / truncated
	Ver    int `json:"ver"`    // 0 second version, 1 first version
	Proof  int `json:"proof"`  // 0 genuine, 1 proof of another key, 2 proof from the other version, 3 truncated, 4 nodes reordered, 5 byte flipped, 6 proof for another contract (mpt) / other store key (tm)
	Height int `json:"height"` // 0 the version's height, 1 a height without consensus state, 2 above the latest height
	Wait   int `json:"wait"`   // tm: 0 delay elapsed, 1 exactly elapsed, 2 one nanosecond short, 3 far short
	Aux    int `json:"aux"`
}

var c08Chains = []string{"chain-alpha", "chain-bravo", "chain-charl", "eth-main", "bsc.test_1"}

func genC08(t *rapid.T) C08Case {
	c := C08Case{Client: rapid.SampledFrom([]string{"tm", "bsc", "eth"}).Draw(t, "client")}
	n := rapid.IntRange(1, 8).Draw(t, "nentries")
	for i := 0; i < n; i++ {
		c.Entries = append(c.Entries, C08Entry{
			Kind: rapid.SampledFrom([]int{0, 0, 1, 1, 2}).Draw(t, "kind"),
			Src:  rapid.IntRange(0, len(c08Chains)-1).Draw(t, "src"),
			Dst:  rapid.IntRange(0, len(c08Chains)-1).Draw(t, "dst"),
			Seq:  rapid.SampledFrom([]uint64{1, 2, 3, 10, 255, 256, 1 << 32, ^uint64(0)}).Draw(t, "seq"),
			Val:  rapid.IntRange(0, 5).Draw(t, "val"),
		})
	}
	c.Split = rapid.IntRange(0, n).Draw(t, "split")
	c.Gap = rapid.SampledFrom([]uint64{0, 1, 2, 5, 15}).Draw(t, "gap")
	c.Below = rapid.SampledFrom([]int{0, 0, 0, 0, 1}).Draw(t, "below")
	c.Delay = rapid.SampledFrom([]uint64{0, 0, 1, 2, 3, 10, 21}).Draw(t, "delay")
	nq := rapid.IntRange(1, 8).Draw(t, "nq")
	for i := 0; i < nq; i++ {
		q := C08Query{Entry: rapid.IntRange(0, 7).Draw(t, "entry"), Aux: rapid.IntRange(0, 40).Draw(t, "aux")}
		if rapid.IntRange(0, 4).Draw(t, "absentOn") == 4 {
			q.Absent = rapid.IntRange(1, 3).Draw(t, "absent")
		}
		if rapid.IntRange(0, 2).Draw(t, "claimOn") == 2 {
			q.Claim = rapid.IntRange(1, 3).Draw(t, "claim")
		}
		if rapid.IntRange(0, 3).Draw(t, "verOn") == 3 {
			q.Ver = 1
		}
		if rapid.IntRange(0, 2).Draw(t, "proofOn") == 2 {
			q.Proof = rapid.IntRange(1, 6).Draw(t, "proof")
		}
		if rapid.IntRange(0, 5).Draw(t, "heightOn") == 5 {
			q.Height = rapid.IntRange(1, 2).Draw(t, "height")
		}
		if rapid.IntRange(0, 3).Draw(t, "waitOn") == 3 {
			q.Wait = rapid.IntRange(1, 3).Draw(t, "wait")
		}
		c.Queries = append(c.Queries, q)
	}
	return c
}

func c08Key(e C08Entry) []byte {
	src, dst := c08Chains[mod(e.Src, len(c08Chains))], c08Chains[mod(e.Dst, len(c08Chains))]
	switch mod(e.Kind, 3) {
	case 0:
		return []byte(fmt.Sprintf("commitments/%s/%s/sequences/%d", src, dst, e.Seq))
	case 1:
		return []byte(fmt.Sprintf("acks/%s/%s/sequences/%d", src, dst, e.Seq))
	default:
		return []byte(fmt.Sprintf("clean/%s/%s", src, dst))
	}
}

// c08Value: what the counterparty stores under the key (hash for commitments/acks, big-endian
// sequence for the clean point).
func c08Value(e C08Entry, i int) []byte {
	if mod(e.Kind, 3) == 2 {
		return sdk.Uint64ToBigEndian(e.Seq)
	}
	var pre []byte
	switch mod(e.Val, 6) {
	case 0:
		pre = []byte(fmt.Sprintf("data-%d", i))
	case 1:
		pre = []byte{0}
	case 2:
		pre = bytes.Repeat([]byte{0xff}, 100)
	case 3:
		pre = []byte("same")
	default:
		pre = []byte(fmt.Sprintf("payload %d %d", e.Val, e.Seq))
	}
	h := sha256.Sum256(pre)
	if mod(e.Val, 6) == 5 {
		h[0], h[1] = 0, 0 // a hash with leading zero bytes (trimmed in an EVM storage word)
	}
	return h[:]
}

// slot = keccak256(path || uint256(104)): the protocol-defined storage slot of a path in the contract.
func c08Slot(path []byte) common.Hash {
	return crypto.Keccak256Hash(path, common.LeftPadBytes(big.NewInt(104).Bytes(), 32))
}

var c08Contract = common.HexToAddress("0x6c2d2868487665C766740ec4cAD006110CfDCff8")
var c08Other = common.HexToAddress("0x00000000000000000000000000000000000000aa")

func mutateBytes(b []byte, how, aux int) []byte {
	out := append([]byte{}, b...)
	if len(out) == 0 {
		return out
	}
	switch how {
	case 3:
		return out[:len(out)-1-mod(aux, minInt(len(out)-1, 40)+1)]
	case 5:
		i := mod(aux*131, len(out))
		out[i] ^= 1 << uint(mod(aux, 8))
	}
	return out
}

func minInt(a, b int) int {
	if a < b {
		return a
	}
	return b
}

func checkC08(c C08Case, col *Collector) outcome {
	if len(c.Entries) == 0 || len(c.Queries) == 0 {
		return outcome{}
	}
	ch := singleChain()
	ctx, _ := ch.Branch()
	k := ch.App.TIBCKeeper.ClientKeeper
	cdc := ch.App.AppCodec()
	const name = "counterparty-c08"
	v := func(sig, format string, a ...any) outcome {
		return outcome{V: &sim.Violation{Property: "C08", Sig: c.Client + "/" + sig, Msg: fmt.Sprintf(format, a...)}}
	}
	split := mod(c.Split, len(c.Entries)+1)
	// deduplicate keys: later entries overwrite earlier ones in the model
	model := [2]map[string][]byte{{}, {}}
	for i, e := range c.Entries {
		key := string(c08Key(e))
		if i < split {
			model[0][key] = c08Value(e, i)
		}
		model[1][key] = c08Value(e, i)
	}
	const h1, h2 = int64(7), int64(12) // heights at which the client recorded the two versions' roots
	latest := uint64(h2) + c.Gap
	if c.Below != 0 {
		// a root is recorded at h2, but the client's latest height is lower (an ETH client that followed a branch up
		// to h2 and was then given a competing header at a lower height keeps the abandoned branch's roots)
		latest = uint64(h2) - 1 - c.Gap%4
	}
	var verify func(q C08Query, kind int, height exported.Height, proof []byte, src, dst string, seq uint64, claim []byte, now time.Time) error
	var proofFor func(ver int, key []byte, otherContract bool) []byte
	processed := map[int64]time.Time{}
	delayUnits := c.Delay
	base := time.Date(2024, 5, 1, 0, 0, 0, 500, time.UTC)

	switch c.Client {
	case "tm":
		ic := lcgen.NewIAVLChain(host.StoreKey)
		versions := [2]int64{}
		for i := 0; i < 2; i++ {
			for key, val := range model[i] {
				ic.Set([]byte(key), val)
			}
			ic.Set([]byte(fmt.Sprintf("noise/%d", i)), []byte("n"))
			versions[i] = ic.Commit()
		}
		cs := ibctm.NewClientState("counterparty-1", ibctm.DefaultTrustLevel, 100*time.Hour, 200*time.Hour, 10*time.Second,
			clienttypes.NewHeight(1, latest), commitmenttypes.GetSDKSpecs(), world.Prefix, c.Delay*uint64(time.Second))
		k.SetClientState(ctx, name, cs)
		store := k.ClientStore(ctx, name)
		for i, h := range []int64{h1, h2} {
			k.SetClientConsensusState(ctx, name, clienttypes.NewHeight(1, uint64(h)), &ibctm.ConsensusState{
				Timestamp: base, Root: commitmenttypes.NewMerkleRoot(ic.Roots[versions[i]]), NextValidatorsHash: bytes.Repeat([]byte{1}, 32)})
			processed[h] = base.Add(time.Duration(i+1) * time.Minute)
			ibctm.SetProcessedTime(store, clienttypes.NewHeight(1, uint64(h)), uint64(processed[h].UnixNano()))
		}
		proofFor = func(ver int, key []byte, other bool) []byte {
			if other {
				key = append([]byte("zz/"), key...)
			}
			bz, err := ic.Proof(key, versions[ver], func(mp *commitmenttypes.MerkleProof) ([]byte, error) { return cdc.Marshal(mp) })
			if err != nil {
				return nil
			}
			return bz
		}
		verify = func(q C08Query, kind int, height exported.Height, proof []byte, src, dst string, seq uint64, claim []byte, now time.Time) error {
			st, _ := k.GetClientState(ctx, name)
			tm := st.(*ibctm.ClientState)
			cctx := ctx.WithBlockTime(now)
			switch kind {
			case 0:
				return tm.VerifyPacketCommitment(cctx, store, cdc, height, proof, src, dst, seq, claim)
			case 1:
				return tm.VerifyPacketAcknowledgement(cctx, store, cdc, height, proof, src, dst, seq, claim)
			default:
				return tm.VerifyPacketCleanCommitment(cctx, store, cdc, height, proof, src, dst, sdk.BigEndianToUint64(claim))
			}
		}
	case "bsc", "eth":
		states := [2]*lcgen.State{}
		for i := 0; i < 2; i++ {
			stg := map[common.Hash][]byte{}
			for key, val := range model[i] {
				stg[c08Slot([]byte(key))] = lcgen.Word(val)
			}
			stg[common.HexToHash("0x01")] = lcgen.Word([]byte{byte(i + 1)})
			states[i] = lcgen.BuildState([]*lcgen.Account{
				{Addr: c08Contract, Nonce: 1, Balance: big.NewInt(0), CodeHash: crypto.Keccak256Hash([]byte("code")), Storage: stg},
				{Addr: c08Other, Nonce: 3, Balance: big.NewInt(7), CodeHash: crypto.Keccak256Hash([]byte("other")), Storage: map[common.Hash][]byte{common.HexToHash("0x02"): {9}}},
			})
		}
		if c.Client == "bsc" {
			nvals := int(c.Delay)
			if nvals < 1 {
				nvals = 1
			}
			var vals [][]byte
			for i := 0; i < nvals; i++ {
				vals = append(vals, bytes.Repeat([]byte{byte(i + 1)}, 20))
			}
			delayUnits = uint64(2*nvals/3 + 1)
			cs := &bsctypes.ClientState{Header: bsctypes.Header{Height: clienttypes.NewHeight(0, latest)}, ChainId: 56, Epoch: 200, BlockInteval: 3,
				Validators: vals, ContractAddress: c08Contract.Bytes(), TrustingPeriod: 1 << 40}
			k.SetClientState(ctx, name, cs)
			for i, h := range []int64{h1, h2} {
				k.SetClientConsensusState(ctx, name, clienttypes.NewHeight(0, uint64(h)), &bsctypes.ConsensusState{
					Timestamp: uint64(base.Unix()), Number: clienttypes.NewHeight(0, uint64(h)), Root: states[i].Root.Bytes()})
			}
		} else {
			cs := &ethtypes.ClientState{Header: ethtypes.Header{Height: clienttypes.NewHeight(0, latest)}, ChainId: 1,
				ContractAddress: c08Contract.Bytes(), TrustingPeriod: 1 << 40, BlockDelay: c.Delay}
			k.SetClientState(ctx, name, cs)
			for i, h := range []int64{h1, h2} {
				k.SetClientConsensusState(ctx, name, clienttypes.NewHeight(0, uint64(h)), &ethtypes.ConsensusState{
					Timestamp: uint64(base.Unix()), Number: clienttypes.NewHeight(0, uint64(h)), Root: states[i].Root.Bytes()})
			}
		}
		store := k.ClientStore(ctx, name)
		proofFor = func(ver int, key []byte, other bool) []byte {
			addr := c08Contract
			if other {
				addr = c08Other
			}
			return states[ver].Prove(addr, c08Slot(key)).Bytes()
		}
		verify = func(q C08Query, kind int, height exported.Height, proof []byte, src, dst string, seq uint64, claim []byte, now time.Time) error {
			st, _ := k.GetClientState(ctx, name)
			cctx := ctx.WithBlockTime(now)
			switch kind {
			case 0:
				return st.VerifyPacketCommitment(cctx, store, cdc, height, proof, src, dst, seq, claim)
			case 1:
				return st.VerifyPacketAcknowledgement(cctx, store, cdc, height, proof, src, dst, seq, claim)
			default:
				return st.VerifyPacketCleanCommitment(cctx, store, cdc, height, proof, src, dst, sdk.BigEndianToUint64(claim))
			}
		}
	default:
		return outcome{}
	}
	rev := uint64(0)
	if c.Client == "tm" {
		rev = 1
	}

	for qi, q := range c.Queries {
		e := c.Entries[mod(q.Entry, len(c.Entries))]
		qe := e
		switch q.Absent {
		case 1:
			qe.Seq = e.Seq + 1
			if mod(e.Kind, 3) == 2 {
				qe.Dst = e.Dst + 1
			}
		case 2:
			qe.Dst = e.Dst + 1
		case 3:
			qe.Kind = e.Kind + 1
		}
		kind := mod(qe.Kind, 3)
		key := c08Key(qe)
		ver := 1 - mod(q.Ver, 2) // q.Ver 0 => second version (index 1)
		hgt := []int64{h1, h2}[ver]
		src, dst := c08Chains[mod(qe.Src, len(c08Chains))], c08Chains[mod(qe.Dst, len(c08Chains))]
		stored := model[ver][string(key)]
		// the claimed value
		var claim []byte
		switch {
		case kind == 2:
			n := qe.Seq
			if stored != nil {
				n = sdk.BigEndianToUint64(stored)
			}
			switch q.Claim {
			case 1:
				n ^= 1 << uint(mod(q.Aux, 64))
			case 2, 3:
				n++
			}
			claim = sdk.Uint64ToBigEndian(n)
		default:
			claim = append([]byte{}, stored...)
			if stored == nil {
				claim = c08Value(qe, 99)
			}
			switch q.Claim {
			case 1:
				claim[mod(q.Aux, len(claim))] ^= 1 << uint(mod(q.Aux, 8))
			case 2:
				other := c.Entries[mod(q.Entry+1, len(c.Entries))]
				claim = c08Value(other, mod(q.Entry+1, len(c.Entries)))
				if mod(other.Kind, 3) == 2 {
					claim = c08Value(C08Entry{Kind: 0, Val: q.Aux}, 77)
				}
			case 3:
				claim = claim[:len(claim)-1]
			}
		}
		// the proof
		pver := ver
		pkey := key
		otherAcct := false
		switch q.Proof {
		case 1:
			o := c.Entries[mod(q.Entry+1, len(c.Entries))]
			pkey = c08Key(o)
		case 2:
			pver = 1 - ver
		case 6:
			otherAcct = true
		}
		proof := proofFor(pver, pkey, otherAcct)
		if proof == nil {
			continue
		}
		switch q.Proof {
		case 3, 5:
			proof = mutateBytes(proof, q.Proof, q.Aux)
		case 4:
			proof = reorderProof(c.Client, proof, q.Aux)
		}
		// the height
		vh := uint64(hgt)
		switch q.Height {
		case 1:
			vh = uint64(hgt) + 1 // no consensus state recorded there
			if vh == uint64(h2) {
				vh++
			}
		case 2:
			vh = latest + 1 + uint64(mod(q.Aux, 3))
		}
		height := clienttypes.NewHeight(rev, vh)
		// the time (tm delay)
		now := base.Add(10 * time.Hour)
		delayOK := true
		if c.Client == "tm" {
			pt := processed[hgt]
			d := time.Duration(c.Delay) * time.Second
			switch q.Wait {
			case 1:
				now = pt.Add(d)
			case 2:
				now = pt.Add(d).Add(-time.Nanosecond)
				delayOK = false
			case 3:
				now = pt.Add(d / 2).Add(-time.Second)
				delayOK = false
			}
			if c.Delay == 0 && q.Wait >= 2 {
				// processed time lies in the future of `now`
				delayOK = false
			}
		} else {
			delayOK = latest-minU64(vh, latest) >= delayUnits
		}
		heightOK := q.Height == 0 && vh <= latest
		truth := stored != nil && heightOK && delayOK
		if truth {
			if kind == 2 {
				truth = sdk.BigEndianToUint64(stored) == sdk.BigEndianToUint64(claim)
			} else {
				truth = bytes.Equal(stored, claim)
			}
		}
		genuine := q.Proof == 0
		err := verify(q, kind, height, proof, src, dst, qe.Seq, claim, now)
		kindName := []string{"commitment", "ack", "clean"}[kind]
		col.Label(c.Client + ":" + kindName)
		if genuine && (q.Claim != 0 || q.Absent != 0 || q.Height != 0 || !delayOK) {
			col.MarkNontrivial(c)
			col.Label(c.Client + ":genuine-proof-perturbed-claim")
		}
		if err == nil && !truth {
			return v("accepted-false-claim/"+kindName, "query %d (%+v): verification succeeded although the claim is not in the recorded state (key %q stored=%x claim=%x height ok=%v delay ok=%v)", qi, q, key, stored, claim, heightOK, delayOK)
		}
		if err != nil && truth && genuine {
			return v("rejected-true-claim/"+kindName, "query %d (%+v): genuine proof of the stored value rejected: %v (key %q value %x height %d latest %d delay %d)", qi, q, err, key, stored, vh, latest, delayUnits)
		}
		if err == nil {
			col.Label(c.Client + ":verified")
		}
	}
	return outcome{}
}

func minU64(a, b uint64) uint64 {
	if a < b {
		return a
	}
	return b
}

// reorderProof swaps two proof nodes.
func reorderProof(client string, proof []byte, aux int) []byte {
	if client == "tm" {
		var mp commitmenttypes.MerkleProof
		if err := singleChain().App.AppCodec().Unmarshal(proof, &mp); err != nil || len(mp.Proofs) < 2 {
			return proof
		}
		mp.Proofs[0], mp.Proofs[1] = mp.Proofs[1], mp.Proofs[0]
		bz, err := singleChain().App.AppCodec().Marshal(&mp)
		if err != nil {
			return proof
		}
		return bz
	}
	var p lcgen.Proof
	if json.Unmarshal(proof, &p) != nil {
		return proof
	}
	if len(p.StorageProof) == 1 && len(p.StorageProof[0].Proof) >= 2 && aux%2 == 0 {
		sp := p.StorageProof[0].Proof
		sp[0], sp[len(sp)-1] = sp[len(sp)-1], sp[0]
	} else if len(p.AccountProof) >= 2 {
		p.AccountProof[0], p.AccountProof[len(p.AccountProof)-1] = p.AccountProof[len(p.AccountProof)-1], p.AccountProof[0]
	}
	return p.Bytes()
}

func TestC08(t *testing.T) {
	runProp(t, "C08",
		"case = client type (tm / bsc / eth), 1-8 protocol entries (packet commitments, acks, clean points; channels over 5 chain names; sequences 1..2^64-1; hash values incl. ones with leading zero bytes) committed in two versions of the counterparty state (real IAVL multistore for tm; real go-ethereum account+storage tries for bsc/eth, slot = keccak256(path||uint256(104)), word = left-padded value), a client holding both roots at heights 7 and 12 with latest height 12+gap (one case in five: latest height 8..11, below the second recorded root) and a delay configuration (tm: time delay vs processed time to the nanosecond; eth: block delay; bsc: 2n/3+1 blocks), then 1-8 queries: entry or an absent neighbour (other sequence / channel / kind), claimed value right / bit-flipped / another entry's / shortened, proof genuine / of another key / from the other version / truncated / nodes reordered / byte-flipped / for another contract or store key, height with or without a recorded root or above the latest height; calls the exported VerifyPacketCommitment / Acknowledgement / CleanCommitment; oracle = the model of the two versions: completeness (genuine proof of the stored value at a recorded height with the delay elapsed => nil) and soundness (nil => the model stores exactly that value under that key at that height and the height/delay conditions hold); non-trivial = a genuine proof used with a perturbed claim (value, key, height or delay)",
		genC08, checkC08)
}
