//go:build verif

package props

import (
	"bytes"
	"encoding/json"
	"fmt"
	"math/big"
	"os"
	"testing"
	"time"

	"github.com/ethereum/go-ethereum/common"
	"github.com/ethereum/go-ethereum/crypto"
	"pgregory.net/rapid"

	ethtypes "github.com/bianjieai/tibc-go/modules/tibc/light-clients/09-eth/types"

	"verifharness/lcgen"
	"verifharness/sim"
)

type C18Case struct {
	Gas0  int       `json:"gas0"`
	Base0 int       `json:"base0,omitempty"` // genesis base fee selector
	Steps []C18Step `json:"steps"`
}

type C18Step struct {
	Parent int `json:"parent"` // 0: the client's latest header; k>0: the k-th stored header counted back from the newest
	Kind   int `json:"kind"`   // 0 valid child; k>0 corruption (c18Kinds)
	DT     int `json:"dt"`     // seconds after the parent (1..40)
	Gas    int `json:"gas"`    // 0 keep, 1 up to bound-1, 2 down to bound-1, 3 +1
	Used   int `json:"used"`   // gas used: 0 half, 1 none, 2 full, 3 target
	Aux    int `json:"aux"`
}

var c18Kinds = []string{"valid", "unknown-parent", "time-equals-parent", "time-before-parent", "time-16s-ahead-of-chain-time", "time-exactly-15s-ahead",
	"gas-limit-at-bound", "gas-limit-below-minimum", "base-fee-plus-one", "base-fee-minus-one", "difficulty-plus-one", "difficulty-minus-one", "duplicate"}

func genC18(t *rapid.T) C18Case {
	c := C18Case{Gas0: rapid.IntRange(0, 2).Draw(t, "gas0"), Base0: rapid.SampledFrom([]int{0, 0, 1, 2, 3, 4}).Draw(t, "base0")}
	n := rapid.IntRange(6, 30).Draw(t, "n")
	for i := 0; i < n; i++ {
		st := C18Step{
			Parent: rapid.SampledFrom([]int{0, 0, 0, 1, 2, 3, 1, 2, 5, 8}).Draw(t, "parent"),
			DT:     rapid.SampledFrom([]int{13, 1, 5, 9, 20, 40, 12, 899, 900, 1000, 6000}).Draw(t, "dt"),
			Gas:    rapid.SampledFrom([]int{0, 0, 3, 1, 2}).Draw(t, "gas"),
			Used:   rapid.IntRange(0, 3).Draw(t, "used"),
			Aux:    rapid.IntRange(0, 50).Draw(t, "aux"),
		}
		if rapid.IntRange(0, 3).Draw(t, "corrupt") == 3 {
			st.Kind = rapid.IntRange(1, len(c18Kinds)-1).Draw(t, "kind")
		}
		c.Steps = append(c.Steps, st)
	}
	return c
}

type c18Node struct {
	h      *ethtypes.Header
	hash   common.Hash
	parent *c18Node
}

const c18Name = "eth-chain-c18"

func checkC18(c C18Case, col *Collector) outcome {
	ethtypes.SkipSealCheck = true
	defer func() { ethtypes.SkipSealCheck = false }()
	ch := singleChain()
	ctx, _ := ch.Branch()
	k := ch.App.TIBCKeeper.ClientKeeper
	v := func(sig, format string, a ...any) outcome {
		return outcome{V: &sim.Violation{Property: "C18", Sig: sig, Msg: fmt.Sprintf(format, a...)}}
	}
	gas0 := []uint64{30_000_000, 8_000_000, 5_200}[mod(c.Gas0, 3)]
	t0 := uint64(1_700_000_000)
	// genesis base fee: 1 gwei, or so low that the proportional change rounds to zero (7, 1 wei), or odd magnitudes
	base0 := []int64{1_000_000_000, 7, 1, 100, 12_345_678_901}[mod(c.Base0, 5)]
	gen := lcgen.EthGenesis(1000, t0, gas0, gas0/2, 3_000_000, base0)
	cs := &ethtypes.ClientState{Header: *gen, ChainId: 1, ContractAddress: common.HexToAddress("0x10").Bytes(), TrustingPeriod: 1 << 40}
	cons := &ethtypes.ConsensusState{Timestamp: gen.Time, Number: gen.Height, Root: gen.Root}
	now := time.Unix(int64(t0)+100, 0)
	ctx = ctx.WithBlockTime(now)
	if err := k.CreateClient(ctx, c18Name, cs, cons); err != nil {
		return v("setup", "create eth client failed: %v", err)
	}
	root := &c18Node{h: gen, hash: gen.Hash()}
	nodes := []*c18Node{root}
	byHash := map[common.Hash]*c18Node{root.hash: root}
	latest := root
	reorgDepth2, returned := false, false
	abandoned := map[common.Hash]bool{}

	for si, st := range c.Steps {
		parent := latest
		if st.Parent > 0 {
			parent = nodes[len(nodes)-1-mod(st.Parent-1, len(nodes))]
		}
		ph := parent.h
		dt := uint64(st.DT)
		if dt < 1 {
			dt = 1
		}
		htime := ph.Time + dt
		gas := ph.GasLimit
		bound := ph.GasLimit / 1024
		switch st.Gas {
		case 1:
			if bound >= 2 {
				gas += bound - 1
			}
		case 2:
			if bound >= 2 && gas-(bound-1) >= 5000 {
				gas -= bound - 1
			}
		case 3:
			if bound >= 2 {
				gas++
			}
		}
		used := []uint64{gas / 2, 0, gas, gas/2 + 1}[mod(st.Used, 4)] // at target, empty, full, one gas above target
		salt := byte(si + 1)
		kind := c18Kinds[mod(st.Kind, len(c18Kinds))]
		applied := kind
		// chain time: normally comfortably after every header time
		if t := time.Unix(int64(htime)+50, 500); t.After(now) {
			now = t
		}
		stateRoot := crypto.Keccak256Hash([]byte(fmt.Sprintf("state-%d", si)))
		hdr := lcgen.EthChild(ph, htime, gas, used, stateRoot, salt)
		switch kind {
		case "unknown-parent":
			hdr.ParentHash = crypto.Keccak256([]byte(fmt.Sprintf("nowhere-%d", st.Aux)))
		case "time-equals-parent":
			hdr = lcgen.EthChild(ph, ph.Time+1, gas, used, stateRoot, salt)
			hdr.Time = ph.Time
			hdr.Difficulty = lcgen.EthChild(ph, ph.Time, gas, used, stateRoot, salt).Difficulty
		case "time-before-parent":
			if ph.Time < 2 {
				applied = "valid"
			} else {
				hdr.Time = ph.Time - 1
			}
		case "time-16s-ahead-of-chain-time":
			now = time.Unix(int64(htime)-16, 999_999_999)
		case "time-exactly-15s-ahead":
			now = time.Unix(int64(htime)-15, 0)
			applied = "valid"
		case "gas-limit-at-bound":
			if bound >= 1 {
				hdr.GasLimit = ph.GasLimit + bound
				if mod(st.Aux, 2) == 1 && ph.GasLimit-bound >= 5000 {
					hdr.GasLimit = ph.GasLimit - bound
				}
				hdr.GasUsed = 0
			} else {
				applied = "valid"
			}
		case "gas-limit-below-minimum":
			hdr.GasLimit = 4999
			hdr.GasUsed = 0
		case "base-fee-plus-one", "base-fee-minus-one":
			b, _ := new(big.Int).SetString(hdr.BaseFee, 10)
			if kind == "base-fee-plus-one" {
				b.Add(b, big.NewInt(1))
			} else if b.Sign() > 0 {
				b.Sub(b, big.NewInt(1))
			} else {
				applied = "valid"
			}
			hdr.BaseFee = b.String()
		case "difficulty-plus-one", "difficulty-minus-one":
			d, _ := new(big.Int).SetString(hdr.Difficulty, 10)
			if kind == "difficulty-plus-one" {
				d.Add(d, big.NewInt(1))
			} else {
				d.Sub(d, big.NewInt(1))
			}
			hdr.Difficulty = d.String()
		case "duplicate":
			if len(nodes) < 2 {
				applied = "valid"
			} else {
				dup := nodes[1+mod(st.Aux, len(nodes)-1)]
				cp := *dup.h
				hdr = &cp
			}
		}
		wantAccept := applied == "valid"
		col.Label("step:" + applied)
		cctx, write := ctx.WithBlockTime(now).CacheContext()
		var uerr error
		func() {
			defer func() {
				if r := recover(); r != nil {
					uerr = fmt.Errorf("panic: %v", r)
				}
			}()
			uerr = k.UpdateClient(cctx, c18Name, hdr)
		}()
		accepted := uerr == nil
		desc := fmt.Sprintf("step %d: header %d (%s) child of stored header %d (latest is %d), time %d, chain time %d", si, hdr.Height.RevisionHeight, applied,
			ph.Height.RevisionHeight, latest.h.Height.RevisionHeight, hdr.Time, now.Unix())
		if accepted != wantAccept {
			if accepted {
				return v("accepted-invalid-header/"+applied, "%s was accepted", desc)
			}
			sig := "rejected-valid-header"
			if parent != latest {
				sig = "rejected-valid-header-on-other-branch"
			}
			return v(sig, "%s was rejected: %v", desc, uerr)
		}
		if !accepted {
			continue
		}
		write()
		node := &c18Node{h: hdr, hash: hdr.Hash(), parent: parent}
		nodes = append(nodes, node)
		byHash[node.hash] = node
		if parent != latest {
			// depth of the reorganisation: how far the old tip is from the common ancestor
			anc := map[common.Hash]bool{}
			for x := node; x != nil; x = x.parent {
				anc[x.hash] = true
			}
			depth := 0
			for x := latest; x != nil && !anc[x.hash]; x = x.parent {
				depth++
				abandoned[x.hash] = true
			}
			if depth >= 2 {
				reorgDepth2 = true
				col.Label("reorg-depth>=2")
			}
			if abandoned[parent.hash] {
				returned = true
				col.Label("returned-to-abandoned-branch")
			}
			col.Label("branch-switch")
		}
		// the client's latest header
		csNow, _ := k.GetClientState(ctx, c18Name)
		ecs := csNow.(*ethtypes.ClientState)
		lh := ecs.Header.Hash()
		ln, ok := byHash[lh]
		if !ok {
			return v("latest-header-unknown", "%s: the client's latest header %s is none of the accepted headers", desc, lh)
		}
		if ln != node {
			return v("latest-header-not-the-accepted-one", "%s: latest header is %d %s", desc, ecs.Header.Height.RevisionHeight, lh)
		}
		latest = ln
		// one chain: every exposed consensus state up to the latest header is that of its ancestor
		for x := latest; x != nil; x = x.parent {
			hgt := x.h.Height
			cst, ok := k.GetClientConsensusState(ctx, c18Name, hgt)
			if !ok {
				return v("consensus-state-missing", "%s: no consensus state at height %d (ancestor of the latest header)", desc, hgt.RevisionHeight)
			}
			ec := cst.(*ethtypes.ConsensusState)
			if ec.Timestamp != x.h.Time || !bytes.Equal(ec.Root, x.h.Root) {
				other := "an unknown header"
				for _, nd := range nodes {
					if nd.h.Height.RevisionHeight == hgt.RevisionHeight && bytes.Equal(nd.h.Root, ec.Root) {
						other = fmt.Sprintf("stored header %s of another branch", nd.hash.Hex()[:10])
					}
				}
				return v("exposed-chain-not-linked", "%s: consensus state at height %d belongs to %s, not to the ancestor of the latest header (latest %d)", desc, hgt.RevisionHeight, other, latest.h.Height.RevisionHeight)
			}
		}
	}
	if reorgDepth2 || returned {
		col.MarkNontrivial(map[string]any{"steps": len(c.Steps), "accepted_headers": len(nodes) - 1, "reorg_depth_ge_2": reorgDepth2, "returned_to_abandoned_branch": returned})
	}
	return outcome{}
}

// mainnetSealCheck runs the recorded mainnet headers through the client with the seal check ON:
// genuine headers must be accepted, the same headers with a corrupted nonce or mix digest refused.
func mainnetSealCheck(t *testing.T, col *Collector) *sim.Violation {
	bz, err := os.ReadFile("testdata/eth_mainnet_headers.json")
	if err != nil {
		col.Label("mainnet-headers-not-found")
		return nil
	}
	var hs []*ethtypes.EthHeader
	if err := json.Unmarshal(bz, &hs); err != nil || len(hs) < 4 {
		return nil
	}
	ethtypes.SkipSealCheck = false
	ch := singleChain()
	ctx, _ := ch.Branch()
	k := ch.App.TIBCKeeper.ClientKeeper
	g := hs[0].ToHeader()
	cs := &ethtypes.ClientState{Header: g, ChainId: 1, ContractAddress: []byte{1}, TrustingPeriod: 1 << 40}
	ctx = ctx.WithBlockTime(time.Unix(int64(hs[len(hs)-1].Time)+100, 0))
	if err := k.CreateClient(ctx, "eth-mainnet-c18", cs, &ethtypes.ConsensusState{Timestamp: g.Time, Number: g.Height, Root: g.Root}); err != nil {
		return &sim.Violation{Property: "C18", Sig: "setup", Msg: err.Error()}
	}
	for i := 1; i <= 2; i++ {
		good := hs[i].ToHeader()
		for _, how := range []string{"nonce", "mix-digest"} {
			bad := good
			if how == "nonce" {
				bad.Nonce ^= 1
			} else {
				bad.MixDigest = append([]byte{}, good.MixDigest...)
				bad.MixDigest[0] ^= 1
			}
			cctx, _ := ctx.CacheContext()
			if err := k.UpdateClient(cctx, "eth-mainnet-c18", &bad); err == nil {
				return &sim.Violation{Property: "C18", Sig: "accepted-invalid-seal/" + how, Msg: fmt.Sprintf("mainnet header %d with a corrupted %s was accepted", good.Height.RevisionHeight, how)}
			}
			col.Label("mainnet-corrupted-seal-rejected")
		}
		if err := k.UpdateClient(ctx, "eth-mainnet-c18", &good); err != nil {
			return &sim.Violation{Property: "C18", Sig: "rejected-valid-seal", Msg: fmt.Sprintf("genuine mainnet header %d rejected: %v", good.Height.RevisionHeight, err)}
		}
		col.Label("mainnet-genuine-seal-accepted")
	}
	return nil
}

func TestC18(t *testing.T) {
	if os.Getenv("VERIF_REPLAY") == "" && (os.Getenv("VERIF_SHARD") == "0" || os.Getenv("VERIF_SHARD") == "") {
		col := newCollector("C18-seal")
		if v := mainnetSealCheck(t, col); v != nil {
			writeFail("C18", v, []byte(`{"steps":[],"note":"recorded mainnet headers with the seal check on"}`), nil)
			t.Fatalf("VIOLATION C18 [%s]: %s", v.Sig, v.Msg)
		}
		t.Logf("seal check on recorded mainnet headers: %v", col.Labels)
	}
	runProp(t, "C18",
		"case = a header tree grown from a synthetic genesis (number 1000, gas limit 30M / 8M / 5200) in 6-30 steps: each step picks a stored parent (the client's latest header or the k-th newest stored header, so competing branches of any depth arise and are revisited) and submits its child with time +1..40 s or after a long gap (899 / 900 / 1000 / 6000 s, where the difficulty adjustment saturates), genesis base fee 1 gwei / 7 wei / 1 wei / 100 wei / 12.3 gwei, gas limit kept / moved to bound-1 / +1, gas used none / at target / one above target / full, difficulty from go-ethereum's ethash.CalcDifficulty and base fee from misc.CalcBaseFee under a London-at-0 config; one step in four carries one violation (unknown parent, time equal to / before the parent's, 16 s ahead of chain time, gas limit exactly at the bound or below 5000, base fee +-1, difficulty +-1, duplicate of a stored header) and 'exactly 15 s ahead' as a valid boundary case; the ethash seal computation is skipped through the verif build-tag hook for these synthetic headers, and the recorded mainnet headers are run with the seal check ON (genuine accepted, corrupted nonce / mix digest refused) in shard 0 of every run; oracle = accept iff the step is a valid child of a stored header; after every accepted header the client's latest header is that header and for every ancestor of it the exposed consensus state at that height is (time, root) of that ancestor; non-trivial = a history with a reorganisation of depth >= 2 or a return to a previously abandoned branch",
		genC18, checkC18)
}
