package props

import (
	"testing"

	"verifharness/sim"
)

// tokenPreamble gives every chain one NFT class with two tokens and one MT denom with two lots,
// so that application packets appear early in random histories.
func tokenPreamble(n int) []sim.Op {
	var ops []sim.Op
	for i := 0; i < n; i++ {
		ops = append(ops,
			sim.Op{K: "nftissue", A: i, B: 0, C: 0}, // the same class name and ids on every chain: maximal collision potential
			sim.Op{K: "nftmint", A: i, B: 0, C: 0, D: 0, U: 0},
			sim.Op{K: "nftmint", A: i, B: 0, C: 0, D: 1, U: 1},
			sim.Op{K: "mtissue", A: i, B: 0},
			sim.Op{K: "mtmint", A: i, B: 0, C: 0, D: 3, U: 0},
		)
	}
	return ops
}

var profileC01 = []kindW{{"mocksend", 5}, {"nftsend", 2}, {"mtsend", 2}, {"flow", 6}, {"recv", 9}, {"ack", 2}, {"update", 2},
	{"commit", 1}, {"clean", 1}, {"recvclean", 1}, {"replay", 2}, {"rules", 2}, {"restart", 1}}

func TestC01(t *testing.T) {
	runProp(t, "C01",
		"case = topology (2-4 fully connected chains) + up to 40 abstract ops (sends on mock/NFT/MT ports, genuine relay moves, receives with one of 16 alterations, acks, cleans, replays); oracle = commitment read from the proving chain's committed store at proofHeight-1 and consensus-state presence on the receiving chain; non-trivial = history with >=1 accepted genuine receive AND >=1 adversarial receive built from a genuine proof; distinct by hash of the case",
		genWorldCase(profileC01, 2, 4, 8, 40),
		func(c WorldCase, col *Collector) outcome {
			s := sim.New(buildWorld(c))
			s.Checkers = []func(*sim.Sim, *sim.Step) *sim.Violation{sim.CheckC01, sim.CheckAtomicity("C01")}
			out := runOps(s, append(tokenPreamble(c.N), c.Ops...))
			col.AddLabels(s.Labels)
			if s.Labels["accepted-genuine"] > 0 && s.Labels["adversarial-from-genuine"] > 0 {
				col.MarkNontrivial(map[string]any{"n": c.N, "trace": tail(s.Trace, 12)})
			}
			return out
		})
}

var profileC02 = []kindW{{"mocksend", 6}, {"nftsend", 2}, {"mtsend", 2}, {"flow", 6}, {"round", 6}, {"recv", 3}, {"ack", 2}, {"update", 1},
	{"commit", 1}, {"clean", 5}, {"recvclean", 2}, {"cleanflow", 5}, {"stale", 5}, {"replay", 8}, {"burst", 2}, {"batch", 4}, {"cleanraid", 3}, {"restart", 1}}

func TestC02(t *testing.T) {
	runProp(t, "C02",
		"case = topology + up to 50 ops weighted towards re-submission (verbatim and with fresh proofs), cleans and receive-cleans; oracle = per (chain,src,dst,seq) count of accepted MsgRecvPacket <= 1, and completeness: a genuine app packet whose commitment is in the prover's store at proofHeight-1, with no receipt and above the clean point on the target, must be accepted; non-trivial = history whose generated part (after the fixed prefix) contains a re-submission after a clean covered it, or a re-submission on a relay hop",
		genWorldCaseAB(profileC02, 2, 4, 10, 50, 3),
		func(c WorldCase, col *Collector) outcome {
			s := sim.New(buildWorld(c))
			st := &sim.C02State{Accepted: map[sim.ChanSeq]int{}}
			s.Checkers = []func(*sim.Sim, *sim.Step) *sim.Violation{sim.CheckC02(st)}
			// fixed prefix: three packets completed on one channel, cleaned in two steps (1, then 3) with each clean
			// propagated, then the older receive-clean and the original receives re-submitted verbatim
			prefix := []sim.Op{{K: "mocksend", A: 0, B: 0}, {K: "mocksend", A: 0, B: 0}, {K: "mocksend", A: 0, B: 0}, {K: "round", A: 0}, {K: "round", A: 1}, {K: "round", A: 2},
				{K: "clean", A: 0, C: 8}, {K: "cleanflow", A: 0}, {K: "clean", A: 0, C: 0}, {K: "cleanflow", A: 0}, {K: "cleanraid", A: 0},
				// three more packets, only the last one completed; a proof-less clean request naming this channel is
				// submitted on the receiving chain; the two undelivered packets must still get through
				{K: "mocksend", A: 0, B: 0}, {K: "mocksend", A: 0, B: 0}, {K: "mocksend", A: 0, B: 0}, {K: "round", A: 5},
				{K: "clean", A: 0, C: 0, U: 4}, {K: "round", A: 3}, {K: "round", A: 4}}
			out, gen := runFixedThen(s, append(tokenPreamble(c.N), prefix...), c.Ops)
			col.AddLabels(s.Labels)
			if gen("resubmission-after-clean") > 0 || gen("resubmission-on-relay") > 0 {
				col.MarkNontrivial(map[string]any{"n": c.N, "trace": tail(s.Trace, 12)})
			}
			return out
		})
}

var profileC03 = []kindW{{"mocksend", 4}, {"nftsend", 7}, {"mtsend", 6}, {"flow", 5}, {"round", 7}, {"recv", 1}, {"ack", 9}, {"update", 1},
	{"commit", 1}, {"clean", 1}, {"cleanflow", 1}, {"replay", 4}, {"kwack", 2}, {"rules", 1}, {"nftmint", 1}, {"restart", 1}}

func TestC03(t *testing.T) {
	runProp(t, "C03",
		"case = topology + up to 50 ops weighted towards acknowledgements (14 alterations incl. swapped success/error bytes, other packet's proof, commitment proof instead of ack proof, stale heights, duplicates) with transfers that yield error acks (invalid/blank receivers); oracle = own commitment == sha256(data) before, ack hash in the prover's committed store at proofHeight-1 == sha256(ack bytes), commitment gone after, <=1 accepted ack per packet per chain, stored ack hash == sha256(announced ack) and never changes until cleaned, keeper-level WriteAcknowledgement refuses empty and second writes; non-trivial = history with >=1 processed error ack AND, in the generated part, >=1 forged or duplicate ack attempt",
		genWorldCase(profileC03, 2, 4, 10, 50),
		func(c WorldCase, col *Collector) outcome {
			s := sim.New(buildWorld(c))
			st := &sim.C03State{AckedOK: map[sim.ChanSeq]int{}, AckHash: map[sim.ChanSeq][]byte{}}
			s.Checkers = []func(*sim.Sim, *sim.Step) *sim.Violation{sim.CheckC03(st)}
			// fixed prefix: one transfer to an undecodable receiver, driven to completion (a processed error ack)
			// then (3+ chains) a relayed packet, the relay's rules narrowed to another port, a receive for the *next*
			// sequence presented to the relay with the first packet's proof, the rules opened again, the genuine next
			// packet sent and driven to completion: whatever the refused receive left behind must not be there
			prefix := []sim.Op{{K: "nftsend", A: 0, B: 0, C: 0, D: 0, U: 3}, {K: "round", A: 0},
				{K: "mocksend", A: 0, B: 0, C: 1}, {K: "rules", A: 2, B: 2}, {K: "recv", A: 1, B: 1, C: 2, U: 1}, {K: "rules", A: 2, B: 0},
				{K: "mocksend", A: 0, B: 0, C: 1}, {K: "round", A: 2}, {K: "round", A: 1}}
			out, gen := runFixedThen(s, append(tokenPreamble(c.N), prefix...), c.Ops)
			col.AddLabels(s.Labels)
			if s.Labels["processed-error-ack"] > 0 && gen("forged-or-duplicate-ack") > 0 {
				col.MarkNontrivial(map[string]any{"n": c.N, "trace": tail(s.Trace, 12)})
			}
			return out
		})
}

var profileC09 = []kindW{{"mocksend", 8}, {"nftsend", 8}, {"mtsend", 6}, {"flow", 5}, {"nftmint", 2}, {"mtmint", 1}, {"nftxfer", 1},
	{"update", 1}, {"commit", 1}, {"restart", 1}}

func TestC09(t *testing.T) {
	runProp(t, "C09",
		"case = topology + up to 45 ops weighted towards sends from the mock, NFT and MT senders by several users with injected failures (unknown destination/relay, not owner, unknown class/id, amount>balance, amount 0, empty data, wrong sequence, destination==self), interleaved with inbound relay traffic; oracle = per (src,dst) the sequences of successful sends are 1,2,3..., exactly the counter key and one commitment key change in the tibc store, commitment == sha256(announced data), NextSequenceSend == seq+1, failed sends leave tibc/nft/mt/NFT stores byte-identical; non-trivial = a failing send between two successful sends by different users on the same channel",
		genWorldCase(profileC09, 2, 4, 10, 45),
		func(c WorldCase, col *Collector) outcome {
			s := sim.New(buildWorld(c))
			c02 := sim.CheckC02(&sim.C02State{Accepted: map[sim.ChanSeq]int{}})
			provable := func(sm *sim.Sim, st *sim.Step) *sim.Violation {
				// "each successful send leaves exactly one provable commitment": a genuine receive with a valid
				// proof of that commitment must be accepted at the next hop
				if v := c02(sm, st); v != nil && v.Sig == "genuine-packet-refused" {
					return &sim.Violation{Property: "C09", Sig: "commitment-not-provable", Msg: v.Msg}
				}
				return nil
			}
			s.Checkers = []func(*sim.Sim, *sim.Step) *sim.Violation{sim.CheckC09(sim.NewC09State()), provable}
			out := runOps(s, append(tokenPreamble(c.N), c.Ops...))
			col.AddLabels(s.Labels)
			if s.Labels["fail-between-successes-different-users"] > 0 {
				col.MarkNontrivial(map[string]any{"n": c.N, "trace": tail(s.Trace, 12)})
			}
			return out
		})
}

var profileC10 = []kindW{{"mocksend", 8}, {"nftsend", 1}, {"flow", 6}, {"round", 8}, {"recv", 2}, {"ack", 2}, {"update", 1},
	{"commit", 1}, {"clean", 8}, {"recvclean", 4}, {"cleanflow", 6}, {"stale", 5}, {"replay", 4}, {"burst", 2}, {"cleanraid", 3}, {"restart", 1}}

func TestC10(t *testing.T) {
	runProp(t, "C10",
		"case = topology + up to 60 ops with several packets per channel in different stages, MsgCleanPacket with N drawn around the clean point / highest contiguous ack / max sent / 0 / 2^64-1, MsgRecvCleanPacket on relay and destination with 7 alterations, replays; oracle = source accept => N>clean point, N<=highest acked (from the harness's own log of accepted acks), all of 1..N acked; elsewhere accept => prover's committed clean point == N at proofHeight-1; effect = only the clean key and receipts/acks in (old,N] change, none <=N survive; clean points never decrease; no recv/ack at or below the clean point is ever accepted; non-trivial = in the generated part (after the fixed prefix): a clean attempted past an unacknowledged packet AND a message at/below a clean point submitted after a successful clean",
		genWorldCaseAB(profileC10, 2, 4, 12, 60, 3),
		func(c WorldCase, col *Collector) outcome {
			s := sim.New(buildWorld(c))
			s.Checkers = []func(*sim.Sim, *sim.Step) *sim.Violation{sim.CheckC10(sim.NewC10State())}
			// fixed prefix: three packets on one channel, the second acknowledged first, a clean attempted past
			// the unacknowledged first one, then everything acknowledged, cleaned, propagated and probed again
			prefix := []sim.Op{{K: "mocksend", A: 0, B: 0}, {K: "mocksend", A: 0, B: 0}, {K: "mocksend", A: 0, B: 0}, {K: "round", A: 1},
				{K: "clean", A: 0, C: 9}, {K: "round", A: 0}, {K: "clean", A: 0, C: 8}, {K: "cleanflow", A: 0}, {K: "clean", A: 0, C: 0}, {K: "cleanflow", A: 0}, {K: "cleanraid", A: 0}, {K: "stale", A: 0, B: 0}, {K: "stale", A: 1, B: 1}}
			out, gen := runFixedThen(s, append(tokenPreamble(c.N), prefix...), c.Ops)
			col.AddLabels(s.Labels)
			if gen("clean-past-unacked") > 0 && gen("msg-at-or-below-clean-point") > 0 {
				col.MarkNontrivial(map[string]any{"n": c.N, "trace": tail(s.Trace, 12)})
			}
			return out
		})
}
