package props

import (
	"bytes"
	"fmt"
	"testing"
	"time"

	"github.com/ethereum/go-ethereum/common"
	"github.com/ethereum/go-ethereum/crypto"
	"pgregory.net/rapid"

	clienttypes "github.com/bianjieai/tibc-go/modules/tibc/core/02-client/types"
	bsctypes "github.com/bianjieai/tibc-go/modules/tibc/light-clients/08-bsc/types"

	"verifharness/lcgen"
	"verifharness/sim"
)

type C17Case struct {
	N0    int       `json:"n0"`    // initial validator count 1..21
	Epoch int       `json:"epoch"` // epoch length
	Gas0  int       `json:"gas0"`  // initial gas limit selector
	Steps []C17Step `json:"steps"`
}

type C17Step struct {
	Kind   int `json:"kind"`    // 0 valid header; k>0: corruption k (see c17Kinds)
	Signer int `json:"signer"`  // 0: the in-turn validator when eligible; k>0: k-th eligible validator
	Gas    int `json:"gas"`     // 0 keep, 1 up to the bound-1, 2 down to the bound-1, 3 small step
	NewSet int `json:"new_set"` // epoch blocks: 0 same, 1 grow by one, 2 shrink by one, 3 replace one, 4 single validator, 5 twenty-one validators
	Aux    int `json:"aux"`
}

var c17Kinds = []string{"valid", "wrong-parent-hash", "number-gap", "number-repeat", "signer-not-in-set", "signer-signed-recently",
	"difficulty-swapped", "gas-limit-at-bound", "gas-limit-below-minimum", "gas-limit-above-2^63-1", "gas-used-above-limit",
	"validators-listed-off-epoch", "epoch-extra-not-multiple-of-20", "coinbase-not-signer", "mix-digest-nonzero", "uncle-hash-wrong",
	"difficulty-zero", "tampered-root-after-seal", "tampered-time-after-seal", "tampered-gas-used-after-seal"}

const c17ChainID = 56

var c17Keys = lcgen.ParliaKeys(40)

func genC17(t *rapid.T) C17Case {
	c := C17Case{
		N0:    rapid.SampledFrom([]int{1, 2, 3, 4, 5, 7, 8, 11, 21}).Draw(t, "n0"),
		Epoch: rapid.SampledFrom([]int{0, 1, 2, 5, 9}).Draw(t, "epoch"),
		Gas0:  rapid.IntRange(0, 3).Draw(t, "gas0"),
	}
	n := rapid.IntRange(15, 70).Draw(t, "nsteps")
	for i := 0; i < n; i++ {
		st := C17Step{
			Signer: rapid.SampledFrom([]int{0, 0, 0, 1, 2, 3, 5}).Draw(t, "signer"),
			Gas:    rapid.SampledFrom([]int{0, 0, 3, 1, 2}).Draw(t, "gas"),
			NewSet: rapid.SampledFrom([]int{0, 1, 2, 3, 1, 2, 4, 5}).Draw(t, "newset"),
			Aux:    rapid.IntRange(0, 30).Draw(t, "aux"),
		}
		if rapid.IntRange(0, 4).Draw(t, "corrupt") == 4 {
			st.Kind = rapid.IntRange(1, len(c17Kinds)-1).Draw(t, "kind")
		}
		c.Steps = append(c.Steps, st)
	}
	return c
}

type parliaModel struct {
	latest  *bsctypes.Header
	vals    []common.Address // sorted ascending
	pending []common.Address
	sealers map[uint64]common.Address
	epoch   uint64
	// retained is the recent-signer window as Parlia's snapshot keeps it: one entry per accepted height, the entry
	// number-(N/2+1) dropped at every block with the N of that moment. After the set grows it holds fewer heights
	// than floor(N/2), which is what separates the recorded finding from any other recency failure.
	retained map[uint64]common.Address
}

// retainedRecent reports whether a is within the retained window for a header at height n with N validators.
func (m *parliaModel) retainedRecent(a common.Address, n uint64, N int) bool {
	limit := uint64(N/2 + 1)
	for h, x := range m.retained {
		if x == a && h+limit > n {
			return true
		}
	}
	return false
}

func (m *parliaModel) eligible(n uint64) []common.Address {
	win := uint64(len(m.vals) / 2)
	recent := map[common.Address]bool{}
	for h := n - 1; h+win >= n && h > 0; h-- {
		if a, ok := m.sealers[h]; ok {
			recent[a] = true
		}
		if h == 0 {
			break
		}
	}
	var out []common.Address
	for _, v := range m.vals {
		if !recent[v] {
			out = append(out, v)
		}
	}
	return out
}

func keyOf(a common.Address) lcgen.ParliaKey {
	for _, k := range c17Keys {
		if k.Addr == a {
			return k
		}
	}
	panic("unknown validator address")
}

func checkC17(c C17Case, col *Collector) outcome {
	ch := singleChain()
	ctx, _ := ch.Branch()
	k := ch.App.TIBCKeeper.ClientKeeper
	const name = "bsc-chain-c17"
	v := func(sig, format string, a ...any) outcome {
		return outcome{V: &sim.Violation{Property: "C17", Sig: sig, Msg: fmt.Sprintf(format, a...)}}
	}
	n0 := c.N0
	if n0 < 1 {
		n0 = 1
	}
	if n0 > 21 {
		n0 = 21
	}
	epoch := uint64(n0/2 + 2 + mod(c.Epoch, 10))
	var set0 []common.Address
	for i := 0; i < n0; i++ {
		set0 = append(set0, c17Keys[i].Addr)
	}
	set0 = lcgen.SortAddrs(set0)
	gas0 := []uint64{30_000_000, 5_100, 1 << 62, 8_000_000}[mod(c.Gas0, 4)]
	gnum := epoch * 8 // header numbers stay above N/2+1 for every N <= 21, as on any live chain
	baseTime := uint64(1_700_000_000)
	genesis := lcgen.NewParliaHeader(gnum, common.HexToHash("0x01"), set0[0], 2, gas0, 0, baseTime, crypto.Keccak256Hash([]byte("root0")), set0)
	lcgen.Seal(genesis, c17ChainID, keyOf(set0[0]))
	var valBytes [][]byte
	for _, a := range set0 {
		valBytes = append(valBytes, a.Bytes())
	}
	cs := &bsctypes.ClientState{Header: *genesis, ChainId: c17ChainID, Epoch: epoch, BlockInteval: 3, Validators: valBytes,
		ContractAddress: common.HexToAddress("0x10").Bytes(), TrustingPeriod: 1 << 40}
	cons := &bsctypes.ConsensusState{Timestamp: genesis.Time, Number: genesis.Height, Root: genesis.Root}
	ctx = ctx.WithBlockTime(time.Unix(int64(baseTime)+10, 0))
	if err := k.CreateClient(ctx, name, cs, cons); err != nil {
		return v("setup", "create bsc client failed: %v", err)
	}
	m := &parliaModel{latest: genesis, vals: set0, pending: set0, sealers: map[uint64]common.Address{}, epoch: epoch, retained: map[uint64]common.Address{}}
	nextFresh := n0
	setChanges, rejected, epochsCrossed := 0, 0, 0

	for si, st := range c.Steps {
		parent := m.latest
		n := parent.Height.RevisionHeight + 1
		N := len(m.vals)
		elig := m.eligible(n)
		if len(elig) == 0 {
			return v("model", "no eligible signer at %d", n)
		}
		inturn := m.vals[n%uint64(N)]
		signer := elig[mod(st.Signer, len(elig))]
		if st.Signer == 0 {
			for _, e := range elig {
				if e == inturn {
					signer = e
				}
			}
		}
		diff := uint64(1)
		if signer == inturn {
			diff = 2
		}
		gas := parent.GasLimit
		bound := parent.GasLimit / 256
		switch st.Gas {
		case 1:
			if bound >= 2 && gas+bound-1 < 1<<63 {
				gas = gas + bound - 1
			}
		case 2:
			if bound >= 2 && gas-(bound-1) >= 5000 {
				gas = gas - (bound - 1)
			}
		case 3:
			if bound >= 3 && gas+1 < 1<<63 {
				gas++
			}
		}
		var listed []common.Address
		isEpoch := n%epoch == 0
		if isEpoch {
			listed = append([]common.Address{}, m.vals...)
			switch st.NewSet {
			case 1:
				if len(listed) < 21 {
					listed = append(listed, c17Keys[nextFresh%len(c17Keys)].Addr)
					nextFresh++
				}
			case 2:
				if len(listed) > 1 {
					listed = listed[:len(listed)-1]
				}
			case 3:
				listed[mod(st.Aux, len(listed))] = c17Keys[nextFresh%len(c17Keys)].Addr
				nextFresh++
			case 4:
				listed = listed[:1]
			case 5:
				for len(listed) < 21 {
					listed = append(listed, c17Keys[nextFresh%len(c17Keys)].Addr)
					nextFresh++
				}
			}
			listed = dedupAddrs(listed)
		}
		root := crypto.Keccak256Hash([]byte(fmt.Sprintf("root-%d-%d", n, si)))
		hdr := lcgen.NewParliaHeader(n, parent.Hash(), signer, diff, gas, gas/2, parent.Time+3, root, listed)
		sealKey := keyOf(signer)
		kind := c17Kinds[mod(st.Kind, len(c17Kinds))]
		applied := kind
		reseal := true
		switch kind {
		case "valid":
		case "wrong-parent-hash":
			hdr.ParentHash[mod(st.Aux, 32)] ^= 0x01
		case "number-gap":
			hdr.Height = clienttypes.NewHeight(0, n+1)
		case "number-repeat":
			hdr.Height = clienttypes.NewHeight(0, n-1)
		case "signer-not-in-set":
			out := c17Keys[len(c17Keys)-1-mod(st.Aux, 5)]
			inSet := false
			for _, a := range m.vals {
				if a == out.Addr {
					inSet = true
				}
			}
			if inSet {
				applied = "valid"
			} else {
				sealKey = out
				hdr.Coinbase = out.Addr.Bytes()
			}
		case "signer-signed-recently":
			win := uint64(N / 2)
			var recent []common.Address
			for h := n - 1; win > 0 && h+win >= n && h > 0; h-- {
				if a, ok := m.sealers[h]; ok {
					recent = append(recent, a)
				}
			}
			// only validators still in the set make this a pure recency violation
			var cands []common.Address
			for _, r := range recent {
				for _, a := range m.vals {
					if a == r {
						cands = append(cands, r)
					}
				}
			}
			if len(cands) == 0 {
				applied = "valid"
			} else {
				rs := cands[mod(st.Aux, len(cands))]
				if !m.retainedRecent(rs, n, N) {
					// sealed one of the preceding floor(N/2) blocks, but before the set grew: outside the window
					// the snapshot retained
					applied = "signer-signed-recently-before-set-growth"
				}
				sealKey = keyOf(rs)
				hdr.Coinbase = rs.Bytes()
				hdr.Difficulty = 1
				if rs == inturn {
					hdr.Difficulty = 2
				}
			}
		case "difficulty-swapped":
			hdr.Difficulty = 3 - diff
		case "gas-limit-at-bound":
			if bound >= 1 && parent.GasLimit+bound < 1<<63 {
				hdr.GasLimit = parent.GasLimit + bound
				if mod(st.Aux, 2) == 1 && parent.GasLimit-bound >= 5000 {
					hdr.GasLimit = parent.GasLimit - bound
				}
				hdr.GasUsed = 0
			} else {
				applied = "valid"
			}
		case "gas-limit-below-minimum":
			hdr.GasLimit = 4999
			hdr.GasUsed = 0
		case "gas-limit-above-2^63-1":
			hdr.GasLimit = 1 << 63
			hdr.GasUsed = 0
		case "gas-used-above-limit":
			hdr.GasUsed = hdr.GasLimit + 1
		case "validators-listed-off-epoch":
			if isEpoch {
				applied = "valid"
			} else {
				ext := make([]byte, lcgen.ExtraVanity)
				ext = append(ext, m.vals[0].Bytes()...)
				hdr.Extra = append(ext, make([]byte, lcgen.ExtraSeal)...)
			}
		case "epoch-extra-not-multiple-of-20":
			if !isEpoch {
				applied = "valid"
			} else {
				ext := append([]byte{}, hdr.Extra[:len(hdr.Extra)-lcgen.ExtraSeal]...)
				ext = append(ext, 0x07)
				hdr.Extra = append(ext, make([]byte, lcgen.ExtraSeal)...)
			}
		case "coinbase-not-signer":
			other := m.vals[mod(st.Aux, N)]
			if other == signer {
				other = c17Keys[len(c17Keys)-1].Addr
			}
			hdr.Coinbase = other.Bytes()
		case "mix-digest-nonzero":
			hdr.MixDigest[mod(st.Aux, 32)] = 0x01
		case "uncle-hash-wrong":
			hdr.UncleHash[0] ^= 0x01
		case "difficulty-zero":
			hdr.Difficulty = 0
		}
		lcgen.Seal(hdr, c17ChainID, sealKey)
		switch kind {
		case "tampered-root-after-seal":
			hdr.Root[3] ^= 0x40
			reseal = false
		case "tampered-time-after-seal":
			hdr.Time++
			reseal = false
		case "tampered-gas-used-after-seal":
			hdr.GasUsed++
			reseal = false
		}
		_ = reseal
		wantAccept := applied == "valid"
		col.Label("step:" + applied)

		cctx, write := ctx.WithBlockTime(time.Unix(int64(hdr.Time)+5, 0)).CacheContext()
		var uerr error
		func() {
			defer func() {
				if r := recover(); r != nil {
					uerr = fmt.Errorf("panic: %v", r)
				}
			}()
			uerr = k.UpdateClient(cctx, name, hdr)
		}()
		accepted := uerr == nil
		desc := fmt.Sprintf("step %d: header %d (%s) signer %s in-turn %s N=%d epoch=%d gas %d->%d", si, hdr.Height.RevisionHeight, applied, signer.Hex()[:10], inturn.Hex()[:10], N, epoch, parent.GasLimit, hdr.GasLimit)
		if accepted && applied == "signer-signed-recently-before-set-growth" && col.known["C17:accepted-invalid-header/"+applied] {
			// recorded finding: follow the code and keep searching behind it
			sig := "accepted-invalid-header/" + applied
			col.Known[sig]++
			if _, ok := col.KnownExample[sig]; !ok {
				col.KnownExample[sig] = desc + " was accepted"
			}
			wantAccept = true
			signer = common.BytesToAddress(hdr.Coinbase)
		}
		if accepted != wantAccept {
			if accepted {
				return v("accepted-invalid-header/"+applied, "%s was accepted", desc)
			}
			return v("rejected-valid-header", "%s was rejected: %v", desc, uerr)
		}
		if !accepted {
			rejected++
			continue
		}
		write()
		// model transition
		m.sealers[n] = signer
		m.retained[n] = signer
		m.latest = hdr
		if isEpoch {
			m.pending = lcgen.SortAddrs(listed)
			epochsCrossed++
		}
		if n%epoch == uint64(N/2) {
			if !sameAddrs(m.vals, m.pending) {
				setChanges++
			}
			if oldL, newL := len(m.vals)/2+1, len(m.pending)/2+1; newL < oldL {
				for i := 0; i < oldL-newL; i++ {
					delete(m.retained, n-uint64(newL)-uint64(i))
				}
			}
			m.vals = m.pending
		}
		if limit := uint64(len(m.vals)/2 + 1); n >= limit {
			delete(m.retained, n-limit)
		}
		// state after acceptance
		rctx := ctx
		csNow, _ := k.GetClientState(rctx, name)
		bcs := csNow.(*bsctypes.ClientState)
		if bcs.Header.Hash() != hdr.Hash() || bcs.Header.Height.RevisionHeight != n {
			return v("latest-header-wrong", "%s: client's latest header is %d %s", desc, bcs.Header.Height.RevisionHeight, bcs.Header.Hash())
		}
		var got []common.Address
		for _, b := range bcs.Validators {
			got = append(got, common.BytesToAddress(b))
		}
		if !sameAddrs(lcgen.SortAddrs(got), m.vals) {
			return v("validator-set-wrong", "%s: client validators %d entries, model %d (epoch block %v, switch at epoch+%d)", desc, len(got), len(m.vals), isEpoch, N/2)
		}
		cst, ok := k.GetClientConsensusState(rctx, name, clienttypes.NewHeight(0, n))
		if !ok {
			return v("consensus-state-missing", "%s", desc)
		}
		bc := cst.(*bsctypes.ConsensusState)
		if bc.Timestamp != hdr.Time || !bytes.Equal(bc.Root, hdr.Root) || bc.Number.RevisionHeight != n {
			return v("consensus-state-wrong", "%s: stored %+v", desc, bc)
		}
	}
	if setChanges > 0 {
		col.Label("validator-set-changed")
	}
	if epochsCrossed > 0 && setChanges > 0 && rejected > 0 {
		col.MarkNontrivial(map[string]any{"n0": c.N0, "epoch": epoch, "steps": len(c.Steps), "set_changes": setChanges, "rejected": rejected})
	}
	return outcome{}
}

func dedupAddrs(a []common.Address) []common.Address {
	seen := map[common.Address]bool{}
	var out []common.Address
	for _, x := range a {
		if !seen[x] {
			seen[x] = true
			out = append(out, x)
		}
	}
	return out
}

func sameAddrs(a, b []common.Address) bool {
	if len(a) != len(b) {
		return false
	}
	for i := range a {
		if a[i] != b[i] {
			return false
		}
	}
	return true
}

func TestC17(t *testing.T) {
	runProp(t, "C17",
		"case = initial validator set (1..21 deterministic secp256k1 keys), epoch length floor(N/2)+2..+11, initial gas limit (30M, 5100, 2^62, 8M), then 15-70 steps: each step builds the child of the client's latest header, sealed (real ECDSA signature over the Parlia seal hash) by the in-turn validator or the k-th validator that has not sealed any of the preceding floor(N/2) blocks, with the matching difficulty, a gas limit kept, stepped, or moved to one below the allowed bound, and on epoch blocks a validator list that is kept / grown / shrunk / has a member replaced / collapses to one / grows to 21; one step in five instead carries one single-rule violation, re-sealed so that only that rule is broken (wrong parent hash, number gap or repeat, signer outside the set, signer that sealed recently, swapped difficulty, gas limit exactly at the bound / below 5000 / above 2^63-1, gas used above the limit, validators listed off-epoch, epoch extra-data not a multiple of 20 bytes, coinbase != signer, non-zero mix digest, wrong uncle hash, zero difficulty) or a field changed after sealing; oracle = a hand-written Parlia snapshot (sorted validator set, pending set applied after block epoch+floor(N_old/2), sealer of every height): accept iff the step is a valid child; after acceptance the client's latest header hash, its validator set and the consensus state (time, number, root) equal the model's; non-trivial = a chain that crossed an epoch with a changed validator set and contained >=1 rejected corruption",
		genC17, checkC17)
}
