package props

import (
	"crypto/sha256"
	"encoding/hex"
	"encoding/json"
	"fmt"
	"os"
	"path/filepath"
	"runtime/debug"
	"sort"
	"strings"
	"testing"

	"pgregory.net/rapid"

	"verifharness/sim"
	"verifharness/world"
)

// Collector gathers the evidence of one shard.
type Collector struct {
	Property     string            `json:"property"`
	Cases        int               `json:"cases"`
	Nontrivial   map[string]bool   `json:"-"`
	NontrivialN  int               `json:"nontrivial"`
	Hashes       []string          `json:"nontrivial_hashes"`
	Labels       map[string]int    `json:"labels"`
	Samples      []json.RawMessage `json:"samples"`
	Known        map[string]int    `json:"known"`         // known-finding signature -> times observed
	KnownExample map[string]string `json:"known_example"` // signature -> one message
	Excluded     map[string]int    `json:"excluded"`
	Rule         string            `json:"rule"`
	cur          string
	curNT        bool
	known        map[string]bool
}

func newCollector(id string) *Collector {
	return &Collector{Property: id, Nontrivial: map[string]bool{}, Labels: map[string]int{}, Known: map[string]int{},
		KnownExample: map[string]string{}, Excluded: map[string]int{}}
}

func (c *Collector) begin(caseJSON []byte) {
	h := sha256.Sum256(caseJSON)
	c.cur = hex.EncodeToString(h[:12])
	c.curNT = false
	c.Cases++
	if c.Cases%25 == 0 {
		c.flush()
	}
}

// MarkNontrivial records the current case as non-trivial (distinct by hash of its canonical JSON).
func (c *Collector) MarkNontrivial(sample any) {
	if c.curNT {
		return
	}
	c.curNT = true
	if !c.Nontrivial[c.cur] {
		c.Nontrivial[c.cur] = true
		if len(c.Samples) < 3 && sample != nil {
			bz, _ := json.Marshal(sample)
			c.Samples = append(c.Samples, bz)
		}
	}
}

func (c *Collector) Label(l string) { c.Labels[l]++ }
func (c *Collector) AddLabels(m map[string]int) {
	for k, v := range m {
		c.Labels[k] += v
	}
}

func (c *Collector) flush() {
	dir := os.Getenv("VERIF_OUT")
	if dir == "" {
		return
	}
	c.NontrivialN = len(c.Nontrivial)
	c.Hashes = c.Hashes[:0]
	for h := range c.Nontrivial {
		c.Hashes = append(c.Hashes, h)
	}
	sort.Strings(c.Hashes)
	bz, _ := json.MarshalIndent(c, "", " ")
	_ = os.MkdirAll(dir, 0o755)
	tmp := filepath.Join(dir, "stats-"+c.Property+".json.tmp")
	if os.WriteFile(tmp, bz, 0o644) == nil {
		_ = os.Rename(tmp, filepath.Join(dir, "stats-"+c.Property+".json"))
	}
}

// knownSigs loads "property:signature" entries with status "known" from the committed findings file.
func knownSigs() map[string]bool {
	out := map[string]bool{}
	p := os.Getenv("VERIF_KNOWN")
	if p == "" {
		p = "/verif/known_findings.json"
	}
	bz, err := os.ReadFile(p)
	if err != nil {
		return out
	}
	var f struct {
		Findings []struct {
			Property  string `json:"property"`
			Signature string `json:"signature"`
			Status    string `json:"status"`
		} `json:"findings"`
	}
	if json.Unmarshal(bz, &f) != nil {
		return out
	}
	for _, e := range f.Findings {
		if e.Status == "known" {
			out[e.Property+":"+e.Signature] = true
		}
	}
	return out
}

type failRecord struct {
	Property string          `json:"property"`
	Sig      string          `json:"sig"`
	Msg      string          `json:"msg"`
	Case     json.RawMessage `json:"case"`
	Trace    []string        `json:"trace,omitempty"`
}

func writeFail(id string, v *sim.Violation, caseJSON []byte, trace []string) {
	dir := os.Getenv("VERIF_OUT")
	if dir == "" {
		return
	}
	_ = os.MkdirAll(dir, 0o755)
	bz, _ := json.MarshalIndent(failRecord{Property: id, Sig: v.Sig, Msg: v.Msg, Case: caseJSON, Trace: trace}, "", " ")
	_ = os.WriteFile(filepath.Join(dir, "fail-"+id+".json"), bz, 0o644)
}

// result of checking one case
type outcome struct {
	V     *sim.Violation
	Trace []string
}

// runProp drives one property: replay mode (VERIF_REPLAY) or generated search.
// check must be a pure function of the case.
func runProp[C any](t *testing.T, id, rule string, gen func(*rapid.T) C, check func(C, *Collector) outcome) {
	col := newCollector(id)
	col.Rule = rule
	defer col.flush()
	known := knownSigs()
	col.known = known

	handle := func(c C, fatal func(string, ...any)) {
		caseJSON, _ := json.Marshal(c)
		col.begin(caseJSON)
		out := safeCheck(check, c, col)
		if out.V == nil {
			return
		}
		if out.V.Property != id {
			// a violation of another property's invariant is not this check's business
			col.Label("foreign-violation:" + out.V.Property)
			return
		}
		if known[id+":"+out.V.Sig] {
			col.Known[out.V.Sig]++
			if _, ok := col.KnownExample[out.V.Sig]; !ok {
				col.KnownExample[out.V.Sig] = out.V.Msg
			}
			return
		}
		writeFail(id, out.V, caseJSON, out.Trace)
		fatal("VIOLATION %s [%s]: %s\ncase: %s\ntrace:\n  %s", id, out.V.Sig, out.V.Msg, caseJSON, strings.Join(out.Trace, "\n  "))
	}

	if rp := os.Getenv("VERIF_REPLAY"); rp != "" {
		bz, err := os.ReadFile(rp)
		if err != nil {
			t.Fatalf("cannot read replay file: %v", err)
		}
		var fr failRecord
		if err := json.Unmarshal(bz, &fr); err != nil {
			t.Fatalf("bad replay file: %v", err)
		}
		if fr.Property != "" && fr.Property != id {
			t.Skipf("replay file is for %s", fr.Property)
		}
		var c C
		if err := json.Unmarshal(fr.Case, &c); err != nil {
			t.Fatalf("bad case in replay file: %v", err)
		}
		handle(c, t.Fatalf)
		return
	}
	// fixed regression cases first
	for _, f := range regressionFiles(id) {
		bz, err := os.ReadFile(f)
		if err != nil {
			continue
		}
		var fr failRecord
		if json.Unmarshal(bz, &fr) != nil || fr.Case == nil {
			continue
		}
		var c C
		if json.Unmarshal(fr.Case, &c) != nil {
			continue
		}
		col.Label("regression-case")
		handle(c, t.Fatalf)
	}
	rapid.Check(t, func(rt *rapid.T) {
		c := gen(rt)
		handle(c, rt.Fatalf)
	})
}

func safeCheck[C any](check func(C, *Collector) outcome, c C, col *Collector) (out outcome) {
	defer func() {
		if r := recover(); r != nil {
			out = outcome{V: &sim.Violation{Property: col.Property, Sig: "harness-panic", Msg: fmt.Sprintf("panic: %v\n%s", r, debug.Stack())}}
		}
	}()
	return check(c, col)
}

func regressionFiles(id string) []string {
	dir := os.Getenv("VERIF_REPLAYS")
	if dir == "" {
		dir = "/verif/replays"
	}
	m, _ := filepath.Glob(filepath.Join(dir, id, "*.json"))
	sort.Strings(m)
	return m
}

// ---- world cases ---------------------------------------------------------------------------------

// WorldCase is a topology plus an operation list.
type WorldCase struct {
	N      int      `json:"n"`
	NoLink []string `json:"nolink,omitempty"`
	Ops    []sim.Op `json:"ops"`
}

type kindW struct {
	K string
	W int
}

// opGen draws one op with kinds weighted by profile.
func opGen(profile []kindW) *rapid.Generator[sim.Op] { return opGenAB(profile, 11) }

func opGenAB(profile []kindW, maxAB int) *rapid.Generator[sim.Op] {
	var kinds []string
	for _, kw := range profile {
		for i := 0; i < kw.W; i++ {
			kinds = append(kinds, kw.K)
		}
	}
	return rapid.Custom(func(t *rapid.T) sim.Op {
		return sim.Op{
			K: rapid.SampledFrom(kinds).Draw(t, "k"),
			A: rapid.IntRange(0, maxAB).Draw(t, "a"),
			B: rapid.IntRange(0, maxAB).Draw(t, "b"),
			C: rapid.IntRange(0, 23).Draw(t, "c"),
			D: rapid.IntRange(0, 15).Draw(t, "d"),
			U: rapid.Uint64Range(0, 4095).Draw(t, "u"),
		}
	})
}

func genWorldCase(profile []kindW, minN, maxN, minOps, maxOps int) func(*rapid.T) WorldCase {
	return genWorldCaseAB(profile, minN, maxN, minOps, maxOps, 11)
}

func genWorldCaseAB(profile []kindW, minN, maxN, minOps, maxOps, maxAB int) func(*rapid.T) WorldCase {
	if os.Getenv("VERIF_TIER") == "thorough" {
		// the thorough tier also explores histories twice as long
		maxOps *= 2
	}
	return func(t *rapid.T) WorldCase {
		return WorldCase{
			N:   rapid.IntRange(minN, maxN).Draw(t, "n"),
			Ops: rapid.SliceOfN(opGenAB(profile, maxAB), minOps, maxOps).Draw(t, "ops"),
		}
	}
}

func buildWorld(c WorldCase) *world.World {
	n := c.N
	if n < 2 {
		n = 2
	}
	if n > 4 {
		n = 4
	}
	nl := map[string]bool{}
	for _, x := range c.NoLink {
		nl[x] = true
	}
	return world.New(world.Config{N: n, NoLink: nl})
}

// runOps applies the ops and returns the outcome.
func runOps(s *sim.Sim, ops []sim.Op) outcome {
	for _, op := range ops {
		if v := s.Apply(op); v != nil {
			return outcome{V: v, Trace: s.Trace}
		}
	}
	return outcome{}
}

// runFixedThen runs a fixed operation list and then the generated one; the returned function gives the label
// counts produced by the generated part alone (non-trivial rules must not be satisfied by the fixed part).
func runFixedThen(s *sim.Sim, fixed, gen []sim.Op) (outcome, func(string) int) {
	out := runOps(s, fixed)
	base := map[string]int{}
	for k, v := range s.Labels {
		base[k] = v
	}
	since := func(l string) int { return s.Labels[l] - base[l] }
	if out.V != nil {
		return out, since
	}
	return runOps(s, gen), since
}

// runOpsKnown is runOps with the recorded findings made known to the simulator, so that the search
// continues behind them; what was seen is merged into the collector.
func runOpsKnown(s *sim.Sim, ops []sim.Op, col *Collector) outcome {
	s.Known = col.known
	out := runOps(s, ops)
	for k, v := range s.KnownSeen {
		col.Known[k] += v
		if _, ok := col.KnownExample[k]; !ok {
			col.KnownExample[k] = s.KnownExample[k]
		}
	}
	return out
}

func tail(tr []string, n int) []string {
	if len(tr) > n {
		return tr[len(tr)-n:]
	}
	return tr
}
