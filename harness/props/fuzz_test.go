package props

import (
	"bytes"
	"crypto/sha256"
	"encoding/json"
	"fmt"
	"math/big"
	"os"
	"strings"
	"testing"
	"time"

	"github.com/ethereum/go-ethereum/common"
	"github.com/ethereum/go-ethereum/crypto"

	clienttypes "github.com/bianjieai/tibc-go/modules/tibc/core/02-client/types"
	commitmenttypes "github.com/bianjieai/tibc-go/modules/tibc/core/23-commitment/types"
	host "github.com/bianjieai/tibc-go/modules/tibc/core/24-host"
	ibctm "github.com/bianjieai/tibc-go/modules/tibc/light-clients/07-tendermint/types"
	ethtypes "github.com/bianjieai/tibc-go/modules/tibc/light-clients/09-eth/types"

	"verifharness/lcgen"
	"verifharness/sim"
	"verifharness/world"
)

// Native, coverage-guided fuzz targets (thorough tier only). Each puts the property's oracle inside the
// target; a violation is written as an ordinary replay record for the rapid-based check before failing.

func fuzzFail(t *testing.T, id string, v *sim.Violation, c any) {
	bz, _ := json.Marshal(c)
	writeFail(id, v, bz, nil)
	t.Fatalf("VIOLATION %s [%s]: %s", id, v.Sig, v.Msg)
}

// FuzzC12: two rule strings and a triple; oracle = the split-and-compare reference of c12_test.go.
func FuzzC12(f *testing.F) {
	for _, s := range [][5]string{
		{"a+b,*,*", "", "a+b", "x", "y"}, {"[ab]c,x,y", "*,*,*", "ac", "x", "y"}, {"a.b,*,NFT", "", "axb", "q", "NFT"},
		{"chain-a,chain-b,nft", "hub,relay,mt", "chain-a", "chain-b", "nft-v2"}, {"*,*", "", "a", "b", "c"}, {"a,b,c\n", "", "a", "b", "c"},
		{"<x>,#y,z-", "a,b,c", "<x>", "#y", "z-"}, {"^a,b,c$", "", "a", "b", "c"}, {"a|b,c,d", "", "a", "c", "d"},
	} {
		f.Add(s[0], s[1], s[2], s[3], s[4])
	}
	f.Fuzz(func(t *testing.T, r1, r2, a, b, c string) {
		rules := []string{r1}
		if r2 != "" {
			rules = append(rules, r2)
		}
		tr := [3]string{a, b, c}
		cs := C12Case{Rules: rules, Via: len(r1) % 2}
		if validID(a) && validID(b) && validID(c) {
			cs.Triples = [][3]string{tr}
		}
		col := newCollector("C12")
		if out := checkC12(cs, col); out.V != nil {
			fuzzFail(t, "C12", out.V, cs)
		}
	})
}

type c08Fixture struct {
	name   string
	store  func() (verify func(height uint64, proof []byte, claim []byte) error)
	proof  []byte
	stored []byte
}

var c08fx struct {
	ready     bool
	tmProof   []byte
	mptProof  []byte
	value     []byte
	verifyTM  func(proof, claim []byte) error
	verifyETH func(proof, claim []byte) error
}

func c08Fixtures() {
	if c08fx.ready {
		return
	}
	ch := singleChain()
	ctx, _ := ch.Branch()
	k := ch.App.TIBCKeeper.ClientKeeper
	cdc := ch.App.AppCodec()
	h := sha256.Sum256([]byte("fuzz packet"))
	value := h[:]
	key := host.PacketCommitmentKey("chain-alpha", "chain-bravo", 7)
	// tendermint
	ic := lcgen.NewIAVLChain(host.StoreKey)
	ic.Set(key, value)
	ic.Set([]byte("commitments/chain-alpha/chain-bravo/sequences/8"), bytes.Repeat([]byte{7}, 32))
	ic.Set([]byte("acks/chain-alpha/chain-bravo/sequences/7"), bytes.Repeat([]byte{9}, 32))
	ver := ic.Commit()
	base := time.Date(2024, 5, 1, 0, 0, 0, 0, time.UTC)
	tmName := "fuzz-tm"
	cs := ibctm.NewClientState("counterparty-1", ibctm.DefaultTrustLevel, 100*time.Hour, 200*time.Hour, 10*time.Second,
		clienttypes.NewHeight(1, 20), commitmenttypes.GetSDKSpecs(), world.Prefix, 0)
	k.SetClientState(ctx, tmName, cs)
	k.SetClientConsensusState(ctx, tmName, clienttypes.NewHeight(1, 20), &ibctm.ConsensusState{Timestamp: base, Root: commitmenttypes.NewMerkleRoot(ic.Roots[ver]), NextValidatorsHash: bytes.Repeat([]byte{1}, 32)})
	ibctm.SetProcessedTime(k.ClientStore(ctx, tmName), clienttypes.NewHeight(1, 20), 1)
	c08fx.tmProof, _ = ic.Proof(key, ver, func(mp *commitmenttypes.MerkleProof) ([]byte, error) { return cdc.Marshal(mp) })
	c08fx.verifyTM = func(proof, claim []byte) error {
		return cs.VerifyPacketCommitment(ctx.WithBlockTime(base.Add(time.Hour)), k.ClientStore(ctx, tmName), cdc, clienttypes.NewHeight(1, 20), proof, "chain-alpha", "chain-bravo", 7, claim)
	}
	// eth
	contract := common.HexToAddress("0x6c2d2868487665C766740ec4cAD006110CfDCff8")
	st := lcgen.BuildState([]*lcgen.Account{{Addr: contract, Nonce: 1, Balance: big.NewInt(0), CodeHash: crypto.Keccak256Hash([]byte("code")),
		Storage: map[common.Hash][]byte{c08Slot(key): lcgen.Word(value), common.HexToHash("0x01"): {1}, c08Slot([]byte("commitments/chain-alpha/chain-bravo/sequences/8")): bytes.Repeat([]byte{7}, 32)}}})
	ethName := "fuzz-eth"
	ecs := &ethtypes.ClientState{Header: ethtypes.Header{Height: clienttypes.NewHeight(0, 20)}, ChainId: 1, ContractAddress: contract.Bytes(), TrustingPeriod: 1 << 40}
	k.SetClientState(ctx, ethName, ecs)
	k.SetClientConsensusState(ctx, ethName, clienttypes.NewHeight(0, 20), &ethtypes.ConsensusState{Timestamp: uint64(base.Unix()), Number: clienttypes.NewHeight(0, 20), Root: st.Root.Bytes()})
	c08fx.mptProof = st.Prove(contract, c08Slot(key)).Bytes()
	c08fx.verifyETH = func(proof, claim []byte) error {
		return ecs.VerifyPacketCommitment(ctx.WithBlockTime(base.Add(time.Hour)), k.ClientStore(ctx, ethName), cdc, clienttypes.NewHeight(0, 20), proof, "chain-alpha", "chain-bravo", 7, claim)
	}
	c08fx.value = value
	c08fx.ready = true
}

// FuzzC08: arbitrary proof bytes (seeded with genuine IAVL and Merkle-Patricia proofs) and an arbitrary
// claimed value against a fixed recorded root; oracle = soundness: verification may only succeed for the
// value the counterparty really stores under the key.
func FuzzC08(f *testing.F) {
	c08Fixtures()
	f.Add(true, c08fx.tmProof, c08fx.value)
	f.Add(false, c08fx.mptProof, c08fx.value)
	f.Add(true, c08fx.tmProof, bytes.Repeat([]byte{7}, 32))
	f.Add(false, c08fx.mptProof, bytes.Repeat([]byte{7}, 32))
	f.Add(false, c08fx.mptProof, c08fx.value[:31])
	f.Fuzz(func(t *testing.T, tm bool, proof, claim []byte) {
		c08Fixtures()
		var err error
		func() {
			defer func() {
				if r := recover(); r != nil {
					err = fmt.Errorf("panic: %v", r)
					if strings.Contains(fmt.Sprint(r), "runtime error") {
						fuzzFail(t, "C08", &sim.Violation{Property: "C08", Sig: "verifier-panics", Msg: fmt.Sprintf("proof verification panicked on %d proof bytes: %v", len(proof), r)},
							map[string]any{"fuzz": "C08", "tm": tm, "proof": proof, "claim": claim})
					}
				}
			}()
			if tm {
				err = c08fx.verifyTM(proof, claim)
			} else {
				err = c08fx.verifyETH(proof, claim)
			}
		}()
		truth := bytes.Equal(claim, c08fx.value)
		if !tm && len(claim) < 32 {
			truth = bytes.Equal(common.LeftPadBytes(claim, 32), c08fx.value)
		}
		if err == nil && !truth {
			fuzzFail(t, "C08", &sim.Violation{Property: "C08", Sig: "fuzz/accepted-false-claim", Msg: fmt.Sprintf("a proof (%d bytes, tm=%v) verified the false claim %x", len(proof), tm, claim)},
				map[string]any{"fuzz": "C08", "tm": tm, "proof": proof, "claim": claim})
		}
	})
}

var _ = os.Getenv
