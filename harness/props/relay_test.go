package props

import (
	"fmt"
	"testing"

	"pgregory.net/rapid"

	"verifharness/sim"
	"verifharness/world"
)

var profileC13 = []kindW{{"mocksend", 4}, {"nftsend", 5}, {"mtsend", 4}, {"flow", 6}, {"round", 4}, {"alterx", 14}, {"update", 1}, {"rules", 1}, {"nftmint", 1}}

func TestC13(t *testing.T) {
	runProp(t, "C13",
		"case = topology (3-4 chains) + up to 50 ops: sends on mock/NFT/MT ports over direct and relayed routes, genuine relay moves, and 'alterx' = a committed packet re-presented in MsgRecvPacket or MsgAcknowledgement with its port replaced (other registered / unregistered) or its relay chain removed / added / replaced, submitted to the chain the altered message addresses with the genuine proof from the chain the altered message must be proven from; oracle = any such message must be rejected (code != 0) and rejected ones leave the stores unchanged; accepted ones are classified by signature kind/alteration and matched against known_findings.json; non-trivial = history in which >=1 altered message was submitted after the packet's genuine commitment (or ack) existed on the proving chain",
		genWorldCaseAB(profileC13, 3, 4, 10, 50, 7),
		func(c WorldCase, col *Collector) outcome {
			s := sim.New(buildWorld(c))
			s.Checkers = []func(*sim.Sim, *sim.Step) *sim.Violation{sim.CheckC13, sim.CheckAtomicity("C13")}
			out := runOpsKnown(s, append(tokenPreamble(c.N), c.Ops...), col)
			col.AddLabels(s.Labels)
			n := 0
			for k, v := range s.Labels {
				if len(k) > 4 && k[:4] == "c13:" {
					n += v
				}
			}
			if n > 0 {
				col.MarkNontrivial(map[string]any{"n": c.N, "trace": tail(s.Trace, 12)})
			}
			return out
		})
}

// C11Case adds to a world case: links the relay chains lack, and whether the metamorphic twin is run.
type C11Case struct {
	N      int      `json:"n"`
	NoLink []string `json:"nolink,omitempty"`
	Ops    []sim.Op `json:"ops"`
	Twin   bool     `json:"twin,omitempty"`
}

var profileC11 = []kindW{{"mocksend", 4}, {"nftsend", 8}, {"mtsend", 6}, {"flow", 6}, {"round", 10}, {"rules", 5}, {"rulesdiscard", 2}, {"restart", 1}, {"update", 1},
	{"nftmint", 1}, {"mtmint", 1}, {"replay", 1}, {"ack", 1}, {"recv", 1}}

var profileC11Twin = []kindW{{"nftsend", 8}, {"mtsend", 6}, {"mocksend", 2}, {"nftmint", 2}, {"mtmint", 2}, {"nftxfer", 2}, {"mtxfer", 1}}

func genC11(t *rapid.T) C11Case {
	c := C11Case{N: rapid.IntRange(3, 4).Draw(t, "n")}
	c.Twin = rapid.IntRange(0, 3).Draw(t, "twin") == 0
	if c.Twin {
		c.Ops = rapid.SliceOfN(opGenAB(profileC11Twin, 7), 4, 24).Draw(t, "ops")
		return c
	}
	// some ordered pairs without a client: relay chains that do not know a destination
	if rapid.IntRange(0, 2).Draw(t, "cut") == 0 {
		a := rapid.IntRange(0, c.N-1).Draw(t, "cutA")
		b := rapid.IntRange(0, c.N-1).Draw(t, "cutB")
		if a != b {
			c.NoLink = []string{world.ChainNames[a] + ">" + world.ChainNames[b]}
		}
	}
	c.Ops = rapid.SliceOfN(opGenAB(profileC11, 7), 10, 55).Draw(t, "ops")
	return c
}

func TestC11(t *testing.T) {
	runProp(t, "C11",
		"case = 3-4 chains, optionally one missing client (relay chain that does not know the destination), up to 55 ops: transfers and mock packets over relayed routes, rule changes on any chain (allow-all, deny-all, per-port, per-source, per-pair), every relay order; per-step oracle on the relay chain: re-commit (== sha256(data), identical announcement, no ack) iff a literal reading of the rules stored before the step allows (src,dst,port) and the destination client exists, otherwise an error ack and no commitment; destination never accepts a denied packet; genuine acks are accepted on the relay and stored with the same hash; nft/mt/NFT stores of the relay chain never change while relaying. One case in four is a metamorphic twin: the same user scenario executed with relayed routes and with direct routes must end in identical token snapshots on every chain and identical send outcomes. non-trivial = a denied packet whose error ack reached the source, or an error ack from the destination carried through the relay, or a completed twin with >=1 relayed transfer delivered",
		genC11,
		func(c C11Case, col *Collector) outcome {
			if c.Twin {
				return checkTwin(c, col)
			}
			wc := WorldCase{N: c.N, NoLink: c.NoLink}
			s := sim.New(buildWorld(wc))
			ts := sim.NewTokenState("C11")
			s.Checkers = []func(*sim.Sim, *sim.Step) *sim.Violation{sim.CheckC11(sim.NewC11State()), sim.CheckTokens(ts)}
			out := runOpsKnown(s, append(tokenPreamble(c.N), c.Ops...), col)
			col.AddLabels(s.Labels)
			if s.Labels["denied-packet-error-ack-reached-source"] > 0 || s.Labels["error-ack-through-relay"] > 0 {
				col.MarkNontrivial(map[string]any{"n": c.N, "nolink": c.NoLink, "trace": tail(s.Trace, 12)})
			}
			return out
		})
}

// checkTwin runs the scenario with relays and without and compares the final token state.
func checkTwin(c C11Case, col *Collector) outcome {
	run := func(noRelay bool) (*sim.Sim, []bool, *sim.Violation) {
		s := sim.New(buildWorld(WorldCase{N: c.N}))
		s.ForceNoRelay = noRelay
		var oks []bool
		ops := append(tokenPreamble(c.N), c.Ops...)
		for _, op := range ops {
			op.U &= 7 | (7 << 8) // keep receiver kind and amount selector, drop failure injections
			if op.K == "nftsend" || op.K == "mtsend" || op.K == "mocksend" {
				if op.K != "mocksend" && op.D == 0 {
					op.D = 1 // always name a relay in the relayed world
				}
				if op.K == "mocksend" {
					op.U = 0
					if op.C == 0 {
						op.C = 1
					}
				}
				before := len(s.Packets)
				if v := s.Apply(op); v != nil {
					return s, oks, v
				}
				oks = append(oks, len(s.Packets) > before)
				if len(s.Packets) > before {
					if v := s.Apply(sim.Op{K: "round", A: len(s.Packets) - 1}); v != nil {
						return s, oks, v
					}
				}
				continue
			}
			if v := s.Apply(op); v != nil {
				return s, oks, v
			}
		}
		return s, oks, nil
	}
	s1, ok1, v1 := run(false)
	if v1 != nil {
		return outcome{V: v1, Trace: s1.Trace}
	}
	s2, ok2, v2 := run(true)
	if v2 != nil {
		return outcome{V: v2, Trace: s2.Trace}
	}
	col.Label("twin-run")
	if fmt.Sprint(ok1) != fmt.Sprint(ok2) {
		return outcome{V: &sim.Violation{Property: "C11", Sig: "twin-send-outcomes-differ", Msg: fmt.Sprintf("send outcomes with relay %v, direct %v", ok1, ok2)}, Trace: s1.Trace}
	}
	relayed := 0
	for _, r := range s1.Packets {
		if r.P.RelayChain != "" {
			relayed++
		}
	}
	for _, n := range s1.W.Order {
		a, b := sim.SnapTokens(s1.W.Chains[n]).String(), sim.SnapTokens(s2.W.Chains[n]).String()
		if a != b {
			return outcome{V: &sim.Violation{Property: "C11", Sig: "twin-token-state-differs", Msg: fmt.Sprintf("chain %s ends with [%s] over relayed routes but [%s] over direct routes", n, a, b)},
				Trace: append(append([]string{"--- relayed world"}, s1.Trace...), append([]string{"--- direct world"}, s2.Trace...)...)}
		}
	}
	if relayed > 0 {
		col.Label("twin-with-relayed-transfers")
		col.MarkNontrivial(map[string]any{"n": c.N, "twin": true, "relayed_packets": relayed, "trace": tail(s1.Trace, 10)})
	}
	return outcome{}
}
