package props

import (
	"bytes"
	"fmt"
	"strings"
	"testing"

	abci "github.com/cometbft/cometbft/abci/types"
	sdk "github.com/cosmos/cosmos-sdk/types"
	authtypes "github.com/cosmos/cosmos-sdk/x/auth/types"
	govtypes "github.com/cosmos/cosmos-sdk/x/gov/types"
	gethtypes "github.com/ethereum/go-ethereum/core/types"
	"pgregory.net/rapid"

	clienttypes "github.com/bianjieai/tibc-go/modules/tibc/core/02-client/types"
	commitmenttypes "github.com/bianjieai/tibc-go/modules/tibc/core/23-commitment/types"
	host "github.com/bianjieai/tibc-go/modules/tibc/core/24-host"
	routingtypes "github.com/bianjieai/tibc-go/modules/tibc/core/26-routing/types"
	"github.com/bianjieai/tibc-go/modules/tibc/core/exported"
	ibctm "github.com/bianjieai/tibc-go/modules/tibc/light-clients/07-tendermint/types"
	bsctypes "github.com/bianjieai/tibc-go/modules/tibc/light-clients/08-bsc/types"
	ethtypes "github.com/bianjieai/tibc-go/modules/tibc/light-clients/09-eth/types"

	"verifharness/sim"
	"verifharness/world"
)

// C15Case: privileged messages by signer classes.
type C15Case struct {
	Ops []C15Op `json:"ops"`
}

type C15Op struct {
	Msg     int `json:"msg"`     // 0 create, 1 upgrade, 2 register relayers, 3 set rules, 4 update client
	Signer  int `json:"signer"`  // 0 authority, 1 relayer registered for the chain, 2 relayer registered for another chain only, 3 plain user, 4 user signing a message that names the authority, 5 authority but execution discarded, 6 the account registrations name
	Name    int `json:"name"`    // chain name selector
	Payload int `json:"payload"` // payload variant
}

var c15Names = []string{world.ChainNames[1], "chain-zulu01", "chain-yank02", "x"} // existing client, two new names, invalid identifier

func genC15(t *rapid.T) C15Case {
	n := rapid.IntRange(1, 5).Draw(t, "n")
	var c C15Case
	for i := 0; i < n; i++ {
		base := C15Op{
			Msg:     rapid.IntRange(0, 4).Draw(t, "msg"),
			Name:    rapid.SampledFrom([]int{0, 1, 0, 1, 2, 3}).Draw(t, "name"),
			Payload: rapid.SampledFrom([]int{0, 0, 1, 2, 3, 4}).Draw(t, "payload"),
		}
		// the same request from several signer classes, unprivileged ones first
		signers := rapid.Permutation([]int{1, 2, 3, 4, 5, 6}).Draw(t, "signers")
		k := rapid.IntRange(1, 4).Draw(t, "nsigners")
		for _, sg := range signers[:k] {
			op := base
			op.Signer = sg
			c.Ops = append(c.Ops, op)
		}
		if rapid.IntRange(0, 3).Draw(t, "withAuthority") != 0 {
			op := base
			op.Signer = 0
			c.Ops = append(c.Ops, op)
		}
	}
	return c
}

func checkC15(c C15Case, col *Collector) outcome {
	w := world.New(world.Config{N: 2})
	a, b := w.Chains[world.ChainNames[0]], w.Chains[world.ChainNames[1]]
	authority := authtypes.NewModuleAddress(govtypes.ModuleName).String()
	k := a.App.TIBCKeeper
	v := func(sig, format string, args ...any) outcome {
		return outcome{V: &sim.Violation{Property: "C15", Sig: sig, Msg: fmt.Sprintf(format, args...)}}
	}
	// the outsider account is a relayer, but only for a chain other than the ones used below
	{
		ctx, write := a.Branch()
		// (names that extend and that shorten the name of the client they must not touch)
		k.ClientKeeper.RegisterRelayers(ctx, b.Name+"2", []string{a.Accounts[world.OutsiderIdx].Addr.String()})
		k.ClientKeeper.RegisterRelayers(ctx, b.Name[:len(b.Name)-1], []string{a.Accounts[world.OutsiderIdx].Addr.String()})
		k.ClientKeeper.RegisterRelayers(ctx, "chain-other01", []string{a.Accounts[world.OutsiderIdx].Addr.String()})
		// the genesis relayer stays registered for chain-bravo only among the names used here
		k.ClientKeeper.RegisterRelayers(ctx, "chain-zulu01", []string{})
		write()
		a.CommitEmpty(1)
	}
	signerAcc := func(s int) *world.Account {
		switch s {
		case 1:
			return a.Accounts[world.RelayerIdx]
		case 2:
			return a.Accounts[world.OutsiderIdx]
		case 6:
			return a.Accounts[1] // the account relayer registrations name
		default:
			return a.Accounts[0]
		}
	}
	tmClient := func(h uint64) (exported.ClientState, exported.ConsensusState) {
		hd := b.Header(b.Height)
		cs := ibctm.NewClientState(b.Name, ibctm.DefaultTrustLevel, world.DefaultTrustingPeriod, world.DefaultUnbondingPeriod, world.DefaultMaxClockDrift,
			clienttypes.NewHeight(0, h), commitmenttypes.GetSDKSpecs(), world.Prefix, 0)
		return cs, hd.ConsensusState()
	}
	// the harness's own copy of the relayer registry (genesis: the relayer account for every chain name)
	registry := map[string][]string{}
	for _, n := range world.ChainNames {
		registry[n] = []string{a.Accounts[world.RelayerIdx].Addr.String()}
	}
	seenSigners := map[string]map[int]bool{}
	outcomes := map[string]map[bool]bool{}

	for oi, op := range c.Ops {
		name := c15Names[mod(op.Name, len(c15Names))]
		if mod(op.Msg, 5) == 4 {
			name = b.Name
		}
		signer := mod(op.Signer, 7)
		// class 5: the authority's message is executed on a branch of the state that is then discarded (it is the
		// first message of a proposal whose later message fails); for header updates class 5 is a plain account
		discarded := signer == 5 && mod(op.Msg, 5) != 4
		acc := signerAcc(signer)
		authField := acc.Addr.String()
		if signer == 0 || signer == 4 || discarded {
			authField = authority
		}
		ctxNow := a.Ctx()
		_, existed := k.ClientKeeper.GetClientState(ctxNow, name)
		var beforeType string
		var beforeBytes []byte
		if existed {
			cs, _ := k.ClientKeeper.GetClientState(ctxNow, name)
			beforeType = cs.ClientType()
			beforeBytes = a.StoreGet(host.StoreKey, host.FullClientStateKey(name))
		}
		var msg sdk.Msg
		payloadValid := true
		desc := ""
		switch mod(op.Msg, 5) {
		case 0: // create
			cs, cons := tmClient(uint64(b.Height))
			switch mod(op.Payload, 4) {
			case 1:
				cons = &bsctypes.ConsensusState{Timestamp: 1, Number: clienttypes.NewHeight(0, 1), Root: []byte{1}}
				payloadValid = false
			case 2:
				cs = &ibctm.ClientState{} // fails Validate
				payloadValid = false
			}
			acs, _ := clienttypes.PackClientState(cs)
			acons, _ := clienttypes.PackConsensusState(cons)
			msg = &clienttypes.MsgCreateClient{Title: "t", Description: "d", ChainName: name, ClientState: acs, ConsensusState: acons, Authority: authField}
			payloadValid = payloadValid && !existed && name != "x"
			desc = fmt.Sprintf("create %s (payload %d)", name, mod(op.Payload, 4))
		case 1: // upgrade
			var cs exported.ClientState
			var cons exported.ConsensusState
			b.CommitEmpty(1) // a genuinely newer counterparty block, so the upgraded client stays updatable
			cs, cons = tmClient(uint64(b.Height))
			sameType := true
			tmCons := cons
			bscHeader := bsctypes.Header{Height: clienttypes.NewHeight(0, 200), ParentHash: bytes.Repeat([]byte{1}, 32), UncleHash: gethtypes.EmptyUncleHash.Bytes(),
				Coinbase: bytes.Repeat([]byte{1}, 20), Root: bytes.Repeat([]byte{1}, 32), TxHash: bytes.Repeat([]byte{1}, 32), ReceiptHash: bytes.Repeat([]byte{1}, 32),
				Bloom: bytes.Repeat([]byte{0}, 256), Difficulty: 2, GasLimit: 1, Extra: bytes.Repeat([]byte{0}, 97), MixDigest: bytes.Repeat([]byte{0}, 32), Nonce: bytes.Repeat([]byte{0}, 8)}
			switch mod(op.Payload, 4) {
			case 1: // a consistent pair of another client type
				cs = &bsctypes.ClientState{Header: bscHeader, ChainId: 56, Epoch: 200, BlockInteval: 3, TrustingPeriod: 100}
				cons = &bsctypes.ConsensusState{Timestamp: 1, Number: clienttypes.NewHeight(0, 200), Root: []byte{1}}
				sameType = false
			case 2: // another type's client state paired with a consensus state of the existing type
				cs = &bsctypes.ClientState{Header: bscHeader, ChainId: 56, Epoch: 200, BlockInteval: 3, TrustingPeriod: 100}
				cons = tmCons
				sameType = false
			case 3:
				cs = &ethtypes.ClientState{Header: ethtypes.Header{Height: clienttypes.NewHeight(0, 200), Difficulty: "2", BaseFee: "7", GasLimit: 8_000_000, Extra: []byte("x")},
					ChainId: 1, ContractAddress: []byte{1}, TrustingPeriod: 100}
				cons = tmCons
				sameType = false
			}
			acs, _ := clienttypes.PackClientState(cs)
			acons, _ := clienttypes.PackConsensusState(cons)
			msg = &clienttypes.MsgUpgradeClient{Title: "t", Description: "d", ChainName: name, ClientState: acs, ConsensusState: acons, Authority: authField}
			payloadValid = existed && sameType && name != "x"
			desc = fmt.Sprintf("upgrade %s (same type %v)", name, sameType)
		case 2: // register relayers
			list := [][]string{{a.Accounts[1].Addr.String()}, {a.Accounts[1].Addr.String(), a.Accounts[2].Addr.String()}, {"not-an-address"}, {}}[mod(op.Payload, 4)]
			msg = &clienttypes.MsgRegisterRelayer{Title: "t", Description: "d", ChainName: name, Relayers: list, Authority: authField}
			payloadValid = mod(op.Payload, 4) <= 1 && name != "x"
			desc = fmt.Sprintf("register relayers %v for %s", list, name)
		case 3: // rules
			rules := [][]string{{"*,*,*"}, {"chain-alpha,chain-bravo,NFT", "a+b,*,x"}, {"bad rule"}, {"a,b"}, {}}[mod(op.Payload, 5)]
			msg = &routingtypes.MsgSetRoutingRules{Title: "t", Description: "d", Rules: rules, Authority: authField}
			payloadValid = mod(op.Payload, 5) <= 1 || mod(op.Payload, 5) == 4 // an empty list is a valid replacement
			desc = fmt.Sprintf("set rules %v", rules)
		default: // update client of chain-bravo with a valid header
			if signer == 0 || signer == 4 {
				signer = 1
				acc = signerAcc(1)
			}
			b.CommitEmpty(1)
			trusted := int64(a.ClientLatestHeight(b.Name))
			hd := w.UpdateHeader(b.Name, b.Height, trusted)
			um, err := clienttypes.NewMsgUpdateClient(b.Name, hd, acc.Addr)
			if err != nil {
				continue
			}
			msg = um
			name = b.Name
			desc = "update client chain-bravo"
		}
		isUpdate := mod(op.Msg, 5) == 4
		wantEffect := false
		if isUpdate {
			for _, r := range registry[b.Name] {
				if r == acc.Addr.String() {
					wantEffect = true
				}
			}
		} else {
			wantEffect = signer == 0 && payloadValid
		}
		if discarded {
			wantEffect = false
		}
		key := fmt.Sprintf("%d/%d/%d", mod(op.Msg, 5), mod(op.Name, len(c15Names)), mod(op.Payload, 5))
		if seenSigners[key] == nil {
			seenSigners[key] = map[int]bool{}
			outcomes[key] = map[bool]bool{}
		}
		seenSigners[key][signer] = true
		outcomes[key][wantEffect] = true

		hBefore := a.Height
		var ok bool
		var log string
		if (signer == 0 || discarded) && !isUpdate {
			// the authority is a module account: dispatch through the message router as x/gov does
			ctx, write := a.Branch()
			func() {
				defer func() {
					if r := recover(); r != nil {
						log = fmt.Sprintf("panic: %v", r)
					}
				}()
				h := a.App.MsgServiceRouter().Handler(msg)
				if h == nil {
					log = "no handler"
					return
				}
				if vb, isVB := msg.(sdk.HasValidateBasic); isVB {
					if err := vb.ValidateBasic(); err != nil {
						log = err.Error()
						return
					}
				}
				if _, err := h(ctx, msg); err != nil {
					log = err.Error()
					return
				}
				ok = true
			}()
			if discarded {
				if ok {
					col.Label("executed-and-discarded")
				}
				ok, log = false, "executed on a discarded branch"
			}
			if ok {
				write()
			}
			a.CommitEmpty(1)
		} else {
			var res *abci.ExecTxResult
			res = a.Deliver(acc, msg)
			ok = res.Code == 0
			log = res.Log
		}
		col.Label(fmt.Sprintf("msg%d/signer%d", mod(op.Msg, 5), signer))
		full := fmt.Sprintf("op %d: %s by signer class %d -> ok=%v (%s)", oi, desc, signer, ok, trimStr(log, 120))
		if ok != wantEffect {
			if ok {
				return v(fmt.Sprintf("unauthorised-or-invalid-request-took-effect/msg%d/signer%d", mod(op.Msg, 5), signer), "%s; expected refusal", full)
			}
			return v(fmt.Sprintf("authorised-request-refused/msg%d", mod(op.Msg, 5)), "%s; expected to take effect", full)
		}
		if !ok {
			if d := sim.DiffStore(a, host.StoreKey, hBefore, a.Height); len(d) != 0 {
				return v("refused-request-changed-state", "%s; tibc store changed: %d keys, first %q", full, len(d), d[0].Key)
			}
			if existed {
				if now := a.StoreGet(host.StoreKey, host.FullClientStateKey(name)); !bytes.Equal(now, beforeBytes) {
					return v("refused-request-changed-client", "%s; stored client state of %s changed", full, name)
				}
			}
			continue
		}
		// effects of accepted requests
		ctxA := a.Ctx()
		switch mod(op.Msg, 5) {
		case 0:
			cs, found := k.ClientKeeper.GetClientState(ctxA, name)
			if !found || cs.ClientType() != exported.Tendermint {
				return v("create-without-effect", "%s; client %s not found afterwards", full, name)
			}
		case 1:
			cs, found := k.ClientKeeper.GetClientState(ctxA, name)
			if !found {
				return v("upgrade-lost-client", "%s", full)
			}
			if cs.ClientType() != beforeType {
				return v("upgrade-changed-client-type", "%s; type %s -> %s", full, beforeType, cs.ClientType())
			}
			if cs.GetLatestHeight().GetRevisionHeight() != uint64(b.Height) {
				return v("upgrade-without-effect", "%s; latest height %s", full, cs.GetLatestHeight())
			}
		case 2:
			got := k.ClientKeeper.GetRelayers(ctxA, name)
			want := msg.(*clienttypes.MsgRegisterRelayer).Relayers
			if strings.Join(got, ",") != strings.Join(want, ",") {
				return v("register-without-effect", "%s; relayers now %v", full, got)
			}
			registry[name] = want
		case 3:
			got, _ := k.RoutingKeeper.GetRoutingRules(ctxA)
			want := msg.(*routingtypes.MsgSetRoutingRules).Rules
			if strings.Join(got, ";") != strings.Join(want, ";") {
				return v("rules-without-effect", "%s; rules now %v", full, got)
			}
		case 4:
			if a.ClientLatestHeight(b.Name) != uint64(b.Height) {
				return v("update-without-effect", "%s; latest %d, header %d", full, a.ClientLatestHeight(b.Name), b.Height)
			}
		}
		if existed && mod(op.Msg, 5) == 0 {
			return v("create-overwrote-client", "%s; a client for %s already existed", full, name)
		}
	}
	for key, signers := range seenSigners {
		if len(signers) >= 2 && len(outcomes[key]) == 2 {
			col.MarkNontrivial(c)
			break
		}
	}
	return outcome{}
}

func trimStr(s string, n int) string {
	if len(s) > n {
		return s[:n]
	}
	return s
}

func TestC15(t *testing.T) {
	runProp(t, "C15",
		"case = 2-10 privileged operations on one chain of a two-chain world: MsgCreateClient (new name / existing client / invalid identifier; valid Tendermint client, mismatching consensus-state type, invalid client state), MsgUpgradeClient (existing / unknown client; same type or BSC client state for a Tendermint client), MsgRegisterRelayer (valid lists, invalid address, empty list), MsgSetRoutingRules (valid / malformed rules / the empty list), MsgUpdateClient with a genuinely valid header; signer = the governance authority (dispatched through the msg service router, as x/gov does), the relayer registered for that chain, an account registered as relayer for another chain only, a plain account, a plain account signing a message that names the authority, the authority with the execution discarded afterwards (first message of a proposal whose later message fails), or the account that relayer registrations name; oracle = the request takes effect (visible through the keeper getters: client state and type, relayer list, rule list, latest height) iff the signer is the authority (the registered relayer for updates) and the payload is valid; a refused request leaves the tibc store byte-identical and the stored client untouched; create never succeeds on an existing name; upgrade never changes the client type; non-trivial = the same (message, name, payload) submitted by >=2 signer classes with different expected outcomes",
		genC15, checkC15)
}
