//go:build verif

package props

import (
	"crypto/sha256"
	"encoding/hex"
	"encoding/json"
	"fmt"
	"os"
	"os/exec"
	"path/filepath"
	"testing"

	"pgregory.net/rapid"

	ethtypes "github.com/bianjieai/tibc-go/modules/tibc/light-clients/09-eth/types"

	"verifharness/sim"
	"verifharness/world"
)

// C20Case: a world history including BSC and ETH client updates; it is executed several times.
type C20Case struct {
	N   int      `json:"n"`
	Ops []sim.Op `json:"ops"`
}

var profileC20 = []kindW{{"mocksend", 3}, {"nftsend", 4}, {"mtsend", 4}, {"round", 6}, {"flow", 4}, {"recv", 2}, {"ack", 2}, {"clean", 2}, {"cleanflow", 2},
	{"replay", 2}, {"update", 1}, {"nftmint", 1}, {"mtmint", 1}, {"nftxfer", 1}, {"bscupd", 7}, {"ethupd", 5}, {"rulestx", 2}, {"rulesdiscard", 2}, {"hostile", 1}}

func genC20(t *rapid.T) C20Case {
	return C20Case{N: rapid.IntRange(2, 3).Draw(t, "n"), Ops: rapid.SliceOfN(opGenAB(profileC20, 7), 10, 45).Draw(t, "ops")}
}

var (
	debugC20     bool
	debugResults map[string][][]byte
)

type c20Run struct {
	Digests map[string][]string `json:"digests"` // chain -> per-block digest
	Detail  map[string][]string `json:"-"`
	Labels  map[string]int      `json:"labels"`
}

// runC20 executes the case on a fresh world and returns per-block digests of everything observable.
func runC20(c C20Case) (*c20Run, *sim.Violation) { return runC20R(c, 0) }

// runC20R executes the case; restartEvery > 0 additionally restarts one chain (a fresh application object over the
// same committed database) after every restartEvery-th operation, which no execution may be able to notice.
func runC20R(c C20Case, restartEvery int) (*c20Run, *sim.Violation) {
	ethtypes.SkipSealCheck = true
	defer func() { ethtypes.SkipSealCheck = false }()
	n := c.N
	if n < 2 {
		n = 2
	}
	if n > 3 {
		n = 3
	}
	w := world.New(world.Config{N: n, KeepLog: true})
	s := sim.New(w)
	a := w.Chains[w.Order[0]]
	fc, fv := newForeignClients(w, a)
	if fv != nil {
		fv.Property = "C20"
		return nil, fv
	}
	labels := fc.Labels
	// fixed prefix: enough BSC headers to cross an epoch and apply its validator-set change, two ETH updates
	// and one relayed packet driven to completion
	prefix := []sim.Op{{K: "bscupd", D: 3, B: 1}, {K: "bscupd", D: 3, B: 1}, {K: "ethupd"}, {K: "ethupd", A: 1}, {K: "mocksend", A: 0, B: 0, C: 1}, {K: "round", A: 0}}
	if n < 3 {
		prefix = prefix[:4]
	}
	for i, op := range append(append(tokenPreamble(n), prefix...), c.Ops...) {
		if restartEvery > 0 && i%restartEvery == restartEvery-1 {
			w.Chains[w.Order[(i/restartEvery)%len(w.Order)]].Restart()
			labels["restart"]++
		}
		switch op.K {
		case "bscupd":
			fc.bscUpdate(op)
		case "ethupd":
			fc.ethUpdate(op)
		case "rulestx":
			s.Apply(sim.Op{K: "rules", A: op.A, B: op.B, U: op.U})
		default:
			s.Apply(op)
		}
	}
	for _, r := range s.Packets {
		if r.P.RelayChain != "" && len(r.Acks) > 0 {
			labels["relayed-packet-processed"]++
		}
	}
	run := &c20Run{Digests: map[string][]string{}, Detail: map[string][]string{}, Labels: labels}
	for _, name := range w.Order {
		ch := w.Chains[name]
		for _, b := range ch.TxLog {
			h := sha256.New()
			fmt.Fprintf(h, "%d|%d|", b.Height, b.Time.UnixNano())
			for _, tx := range b.Txs {
				h.Write(tx)
				h.Write([]byte{0})
			}
			h.Write(b.AppHash)
			for _, r := range b.Results {
				h.Write(r)
				h.Write([]byte{1})
				if debugC20 {
					if debugResults == nil {
						debugResults = map[string][][]byte{}
					}
					debugResults[name] = append(debugResults[name], r)
				}
			}
			run.Digests[name] = append(run.Digests[name], hex.EncodeToString(h.Sum(nil)[:12]))
			d := fmt.Sprintf("height %d apphash %x ntx %d", b.Height, b.AppHash[:6], len(b.Txs))
			for _, r := range b.Results {
				rh := sha256.Sum256(r)
				d += fmt.Sprintf(" result %x", rh[:6])
			}
			run.Detail[name] = append(run.Detail[name], d)
		}
	}
	return run, nil
}

func diffRuns(a, b *c20Run) string {
	for name, da := range a.Digests {
		db := b.Digests[name]
		if len(da) != len(db) {
			return fmt.Sprintf("chain %s: %d blocks vs %d blocks", name, len(da), len(db))
		}
		for i := range da {
			if da[i] != db[i] {
				x, y := "", ""
				if a.Detail != nil && i < len(a.Detail[name]) {
					x = a.Detail[name][i]
				}
				if b.Detail != nil && i < len(b.Detail[name]) {
					y = b.Detail[name][i]
				}
				return fmt.Sprintf("chain %s block #%d differs: [%s] vs [%s]", name, i+1, x, y)
			}
		}
	}
	return ""
}

func checkC20(c C20Case, col *Collector) outcome {
	first, v := runC20(c)
	if v != nil {
		return outcome{V: v}
	}
	col.AddLabels(first.Labels)
	reps, restarts := 1, []int{3}
	if os.Getenv("VERIF_TIER") == "thorough" {
		reps, restarts = 5, []int{3, 7}
	}
	for i := 0; i < reps; i++ {
		again, v := runC20(c)
		if v != nil {
			return outcome{V: v}
		}
		if d := diffRuns(first, again); d != "" {
			return outcome{V: &sim.Violation{Property: "C20", Sig: "in-process-re-execution-differs", Msg: fmt.Sprintf("execution %d of the same history differs from the first: %s", i+2, d)}}
		}
	}
	// the same history with node restarts in between: nothing an application keeps in memory may matter
	for _, every := range restarts {
		again, v := runC20R(c, every)
		if v != nil {
			return outcome{V: v}
		}
		col.Label("restart-variant-compared")
		if d := diffRuns(first, again); d != "" {
			return outcome{V: &sim.Violation{Property: "C20", Sig: "restart-changes-execution", Msg: fmt.Sprintf("the same history with one chain restarted after every %d operations differs: %s", every, d)}}
		}
	}
	// a child process with a different environment
	if exe, err := os.Executable(); err == nil {
		dir, err := os.MkdirTemp("", "c20-")
		if err == nil {
			defer os.RemoveAll(dir)
			bz, _ := json.Marshal(c)
			cf, of := filepath.Join(dir, "case.json"), filepath.Join(dir, "out.json")
			_ = os.WriteFile(cf, bz, 0o644)
			tmp2 := filepath.Join(dir, "othertmp")
			_ = os.MkdirAll(tmp2, 0o755)
			cmd := exec.Command(exe, "-test.run", "^TestC20Child$", "-test.timeout", "300s")
			cmd.Env = append(os.Environ(), "VERIF_C20_CASE="+cf, "VERIF_C20_OUT="+of, "TMPDIR="+tmp2, "TZ=Pacific/Kiritimati", "GOMAXPROCS=2", "GOGC=25", "VERIF_OUT=", "VERIF_REPLAY=")
			if out, err := cmd.CombinedOutput(); err != nil {
				col.Label("child-process-failed")
				_ = out
			} else if cb, err := os.ReadFile(of); err == nil {
				var child c20Run
				if json.Unmarshal(cb, &child) == nil {
					col.Label("child-process-compared")
					if d := diffRuns(first, &child); d != "" {
						return outcome{V: &sim.Violation{Property: "C20", Sig: "child-process-execution-differs", Msg: "execution in another process (other TMPDIR, TZ, GOMAXPROCS, GOGC) differs: " + d}}
					}
				}
			}
		}
	}
	if first.Labels["bsc-validator-set-changed"] > 0 && first.Labels["eth-update-accepted"] > 0 && first.Labels["relayed-packet-processed"] > 0 {
		col.MarkNontrivial(map[string]any{"n": c.N, "ops": len(c.Ops), "labels": first.Labels})
	}
	return outcome{}
}

// TestC20Child is the child-process half of C20: it executes one recorded case and writes the digests.
func TestC20Child(t *testing.T) {
	cf, of := os.Getenv("VERIF_C20_CASE"), os.Getenv("VERIF_C20_OUT")
	if cf == "" || of == "" {
		t.Skip("not a child run")
	}
	bz, err := os.ReadFile(cf)
	if err != nil {
		t.Fatal(err)
	}
	var c C20Case
	if err := json.Unmarshal(bz, &c); err != nil {
		t.Fatal(err)
	}
	run, v := runC20(c)
	if v != nil {
		t.Fatal(v.Msg)
	}
	out, _ := json.Marshal(run)
	if err := os.WriteFile(of, out, 0o644); err != nil {
		t.Fatal(err)
	}
}

func TestC20(t *testing.T) {
	runProp(t, "C20",
		"case = a history on 2-3 chains (10-45 ops): transfers and mock packets over direct and relayed routes, every relay message type incl. cleans and replays, rule changes, hostile packet data, Tendermint client updates, MsgUpdateClient for a BSC client (Parlia chain of 5+ validators, epoch 6, validator-set changes, one in five headers invalid) and for an ETH client (synthetic children, seal hook on; one in five invalid); rule changes executed on a discarded branch of the state (as the first message of a failing proposal is); the history is executed on a fresh world, then again in the same process (5x in the thorough tier), with node restarts (a fresh application object over the same database after every 3rd operation; thorough: also every 7th) and once in a child process with different TMPDIR, TZ, GOMAXPROCS and GOGC; oracle = per chain and block the digest of (height, block time, tx bytes, app hash, full ExecTxResult bytes: code, log, events, gas) must be identical across all executions; non-trivial = a history with a BSC validator-set change, an accepted ETH update and a relayed packet that was processed",
		genC20, checkC20)
}
