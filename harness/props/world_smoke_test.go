package props

import (
	"testing"
	"time"

	packettypes "github.com/bianjieai/tibc-go/modules/tibc/core/04-packet/types"
	"verifharness/world"
)

func TestWorldSmoke(t *testing.T) {
	t0 := time.Now()
	w := world.New(world.Config{N: 3})
	t.Logf("world built in %v", time.Since(t0))
	a, b := w.Chains["chain-alpha"], w.Chains["chain-bravo"]
	p := packettypes.NewPacket([]byte("hello"), 1, a.Name, b.Name, "", "tibcmock")
	if err := a.App.TIBCKeeper.PacketKeeper.SendPacket(a.Ctx(), p); err != nil {
		t.Fatal(err)
	}
	a.CommitEmpty(1)
	ph, err := w.EnsureProvable(b.Name, a.Name)
	if err != nil {
		t.Fatal(err)
	}
	msg, err := w.RecvMsg(b.Name, a.Name, p, ph, b.Accounts[world.RelayerIdx].Addr)
	if err != nil {
		t.Fatal(err)
	}
	t1 := time.Now()
	res := b.Deliver(b.Accounts[world.RelayerIdx], msg)
	t.Logf("recv code=%d log=%s in %v", res.Code, res.Log, time.Since(t1))
	if res.Code != 0 {
		t.Fatal("recv failed")
	}
	acks := world.AcksFromEvents(res.Events)
	if len(acks) != 1 {
		t.Fatalf("acks: %v", acks)
	}
	ph, err = w.EnsureProvable(a.Name, b.Name)
	if err != nil {
		t.Fatal(err)
	}
	am, err := w.AckMsg(a.Name, b.Name, p, acks[0].Ack, ph, a.Accounts[world.RelayerIdx].Addr)
	if err != nil {
		t.Fatal(err)
	}
	res = a.Deliver(a.Accounts[world.RelayerIdx], am)
	t.Logf("ack code=%d log=%s", res.Code, res.Log)
	if res.Code != 0 {
		t.Fatal("ack failed")
	}
	t.Logf("total %v", time.Since(t0))
}
