package props

import (
	"bytes"
	"crypto/sha256"
	"errors"
	"fmt"
	"math/big"
	"testing"
	"time"

	sdk "github.com/cosmos/cosmos-sdk/types"
	"github.com/ethereum/go-ethereum/common"
	"github.com/ethereum/go-ethereum/crypto"
	"pgregory.net/rapid"

	clienttypes "github.com/bianjieai/tibc-go/modules/tibc/core/02-client/types"
	packettypes "github.com/bianjieai/tibc-go/modules/tibc/core/04-packet/types"
	commitmenttypes "github.com/bianjieai/tibc-go/modules/tibc/core/23-commitment/types"
	host "github.com/bianjieai/tibc-go/modules/tibc/core/24-host"
	"github.com/bianjieai/tibc-go/modules/tibc/core/exported"
	ibctm "github.com/bianjieai/tibc-go/modules/tibc/light-clients/07-tendermint/types"
	bsctypes "github.com/bianjieai/tibc-go/modules/tibc/light-clients/08-bsc/types"
	ethtypes "github.com/bianjieai/tibc-go/modules/tibc/light-clients/09-eth/types"

	"verifharness/lcgen"
	"verifharness/sim"
	"verifharness/world"
)

// C14Case: one client of one type, its newest trusted timestamp, its trusting period, and a block time
// placed relative to the expiry boundary.
type C14Case struct {
	Client string `json:"client"` // tm | bsc | eth
	TsSec  int64  `json:"ts_sec"`
	TsNs   int64  `json:"ts_ns"`  // tm only
	Period int64  `json:"period"` // seconds
	PerNs  int64  `json:"per_ns"` // tm only: extra nanoseconds of the trusting period
	Delta  int64  `json:"delta"`  // block time = boundary + Delta client units (tm: ns, bsc/eth: s)
	SubNs  int64  `json:"sub_ns"` // bsc/eth: sub-second part of the block time
	Mode   int    `json:"mode"`   // 0 Status, 1 update gate, 2 receive, 3 acknowledgement, 4 receive-clean
}

func genC14(t *rapid.T) C14Case {
	c := C14Case{
		Client: rapid.SampledFrom([]string{"tm", "bsc", "eth"}).Draw(t, "client"),
		TsSec:  rapid.SampledFrom([]int64{1_700_000_000, 1_700_000_000, 1_000_000_000, 999_999_000, 500_000_000, 86_400, 100}).Draw(t, "ts"),
		TsNs:   rapid.SampledFrom([]int64{0, 1, 123_456_789, 999_999_999}).Draw(t, "tsns"),
		Period: rapid.SampledFrom([]int64{1, 100, 3600, 1_209_600, 50_000_000}).Draw(t, "period"),
		PerNs:  rapid.SampledFrom([]int64{0, 0, 1, 999_999_999}).Draw(t, "perns"),
		Delta:  rapid.SampledFrom([]int64{-2, -1, 0, 1, 2, -1000, 1000, -1_000_000_000, 1_000_000_000, 86_400_000_000_000, 3}).Draw(t, "delta"),
		SubNs:  rapid.SampledFrom([]int64{0, 1, 500_000_000, 999_999_999, 123_456_789}).Draw(t, "subns"),
		Mode:   rapid.SampledFrom([]int{0, 0, 1, 2, 3, 4}).Draw(t, "mode"),
	}
	return c
}

const c14Name = "counterparty-c14"

func checkC14(c C14Case, col *Collector) outcome {
	ch := singleChain()
	ctx, _ := ch.Branch()
	k := ch.App.TIBCKeeper.ClientKeeper
	pk := ch.App.TIBCKeeper.PacketKeeper
	cdc := ch.App.AppCodec()
	v := func(sig, format string, a ...any) outcome {
		return outcome{V: &sim.Violation{Property: "C14", Sig: c.Client + "/" + sig, Msg: fmt.Sprintf(format, a...)}}
	}
	if c.Period <= 0 {
		c.Period = 1
	}
	const H = uint64(20)
	var now time.Time
	var mustExpired, mustActive bool
	rev := uint64(0)

	// counterparty state with one commitment, one ack and a clean point, provable at height H
	data := []byte("c14 packet data")
	ack := []byte("c14 ack")
	self := ch.Name
	pkt := packettypes.NewPacket(data, 3, c14Name, self, "", "tibcmock") // inbound packet
	out := packettypes.NewPacket(data, 5, self, c14Name, "", "tibcmock") // our outbound packet, acked by the counterparty
	commitKey := host.PacketCommitmentKey(pkt.SourceChain, pkt.DestinationChain, pkt.Sequence)
	ackKey := host.PacketAcknowledgementKey(out.SourceChain, out.DestinationChain, out.Sequence)
	cleanKey := host.CleanPacketCommitmentKey(c14Name, self)
	const cleanN = uint64(2)
	hsh := func(b []byte) []byte { h := sha256.Sum256(b); return h[:] }
	kvs := map[string][]byte{string(commitKey): hsh(data), string(ackKey): hsh(ack), string(cleanKey): sdk.Uint64ToBigEndian(cleanN)}
	var proofOf func(key []byte) []byte

	switch c.Client {
	case "tm":
		rev = 1
		ts := time.Unix(c.TsSec, c.TsNs).UTC()
		p := time.Duration(c.Period)*time.Second + time.Duration(c.PerNs)
		boundary := ts.Add(p)
		now = boundary.Add(time.Duration(c.Delta))
		mustExpired = !now.Before(boundary.Add(time.Nanosecond))
		mustActive = now.Before(boundary)
		ic := lcgen.NewIAVLChain(host.StoreKey)
		for kk, vv := range kvs {
			ic.Set([]byte(kk), vv)
		}
		ver := ic.Commit()
		cs := ibctm.NewClientState("counterparty-1", ibctm.DefaultTrustLevel, p, p*2, 10*time.Second,
			clienttypes.NewHeight(1, H), commitmenttypes.GetSDKSpecs(), world.Prefix, 0)
		k.SetClientState(ctx, c14Name, cs)
		k.SetClientConsensusState(ctx, c14Name, clienttypes.NewHeight(1, H), &ibctm.ConsensusState{
			Timestamp: ts, Root: commitmenttypes.NewMerkleRoot(ic.Roots[ver]), NextValidatorsHash: bytes.Repeat([]byte{1}, 32)})
		ibctm.SetProcessedTime(k.ClientStore(ctx, c14Name), clienttypes.NewHeight(1, H), 1)
		proofOf = func(key []byte) []byte {
			bz, _ := ic.Proof(key, ver, func(mp *commitmenttypes.MerkleProof) ([]byte, error) { return cdc.Marshal(mp) })
			return bz
		}
	case "bsc", "eth":
		ts := uint64(c.TsSec)
		p := uint64(c.Period)
		dsec := c.Delta
		if dsec > 1_000_000 || dsec < -1_000_000 {
			dsec /= 1_000_000 // keep far values far but inside int64 seconds
		}
		nowSec := int64(ts+p) + dsec
		if nowSec < 1 {
			nowSec = 1
		}
		now = time.Unix(nowSec, c.SubNs).UTC()
		mustExpired = uint64(nowSec) >= ts+p+1
		mustActive = uint64(nowSec) < ts+p
		contract := common.HexToAddress("0x6c2d2868487665C766740ec4cAD006110CfDCff8")
		stg := map[common.Hash][]byte{}
		for kk, vv := range kvs {
			stg[c08Slot([]byte(kk))] = lcgen.Word(vv)
		}
		st := lcgen.BuildState([]*lcgen.Account{{Addr: contract, Nonce: 1, Balance: big.NewInt(0), CodeHash: crypto.Keccak256Hash([]byte("code")), Storage: stg}})
		// latest header well above H so that the block delay has elapsed
		if c.Client == "bsc" {
			k.SetClientState(ctx, c14Name, &bsctypes.ClientState{Header: bsctypes.Header{Height: clienttypes.NewHeight(0, H)}, ChainId: 56, Epoch: 200,
				BlockInteval: 3, Validators: nil, ContractAddress: contract.Bytes(), TrustingPeriod: p})
			k.SetClientConsensusState(ctx, c14Name, clienttypes.NewHeight(0, H), &bsctypes.ConsensusState{Timestamp: ts, Number: clienttypes.NewHeight(0, H), Root: st.Root.Bytes()})
			k.SetClientConsensusState(ctx, c14Name, clienttypes.NewHeight(0, H-5), &bsctypes.ConsensusState{Timestamp: ts - 1, Number: clienttypes.NewHeight(0, H-5), Root: st.Root.Bytes()})
		} else {
			k.SetClientState(ctx, c14Name, &ethtypes.ClientState{Header: ethtypes.Header{Height: clienttypes.NewHeight(0, H)}, ChainId: 1,
				ContractAddress: contract.Bytes(), TrustingPeriod: p})
			k.SetClientConsensusState(ctx, c14Name, clienttypes.NewHeight(0, H), &ethtypes.ConsensusState{Timestamp: ts, Number: clienttypes.NewHeight(0, H), Root: st.Root.Bytes()})
			k.SetClientConsensusState(ctx, c14Name, clienttypes.NewHeight(0, H-5), &ethtypes.ConsensusState{Timestamp: ts - 1, Number: clienttypes.NewHeight(0, H-5), Root: st.Root.Bytes()})
		}
		proofOf = func(key []byte) []byte { return st.Prove(contract, c08Slot(key)).Bytes() }
	default:
		return outcome{}
	}
	near := c.Delta >= -2 && c.Delta <= 3
	if near {
		col.Label("near-boundary")
	}
	cctx := ctx.WithBlockTime(now)
	csNow, _ := k.GetClientState(cctx, c14Name)
	store := k.ClientStore(cctx, c14Name)
	status := csNow.Status(cctx, store, cdc)
	region := "boundary-unit"
	if mustExpired {
		region = "must-expire"
	} else if mustActive {
		region = "must-be-active"
	}
	col.Label(c.Client + ":" + region)
	desc := fmt.Sprintf("client=%s newest trusted ts=%d.%09d period=%ds+%dns block time=%d.%09d (%s)", c.Client, c.TsSec, c.TsNs, c.Period, c.PerNs, now.Unix(), now.Nanosecond(), region)

	if c.Client != "tm" {
		// BSC and ETH clients measure in whole seconds: the sub-second part of the block time cannot change the answer
		for _, ns := range []int64{0, 1, 999_999_999} {
			octx := ctx.WithBlockTime(time.Unix(now.Unix(), ns).UTC())
			if other := csNow.Status(octx, k.ClientStore(octx, c14Name), cdc); other != status {
				return v("status-depends-on-sub-second-part", "Status() = %s at block time %d.%09d but %s at %d.%09d (the client's unit is the second): %s",
					status, now.Unix(), now.Nanosecond(), other, now.Unix(), ns, desc)
			}
		}
	}
	switch c.Mode {
	case 0:
		if mustExpired && status != exported.Expired {
			return v("status-not-expired", "Status() = %s for a client past its trusting period: %s", status, desc)
		}
		if mustActive && status != exported.Active {
			return v("status-not-active", "Status() = %s for a client inside its trusting period: %s", status, desc)
		}
	case 1:
		var hdr exported.Header
		switch c.Client {
		case "tm":
			hdr = &ibctm.Header{}
		case "bsc":
			hdr = &bsctypes.Header{}
		default:
			hdr = &ethtypes.Header{}
		}
		notActive, other := false, false
		func() {
			defer func() {
				if r := recover(); r != nil {
					other = true
				}
			}()
			uctx, _ := cctx.CacheContext()
			err := k.UpdateClient(uctx, c14Name, hdr)
			if err != nil && errors.Is(err, clienttypes.ErrClientNotActive) {
				notActive = true
			} else {
				other = true
			}
		}()
		_ = other
		if mustExpired && !notActive {
			return v("update-not-refused-for-expiry", "UpdateClient on an expired client was not refused as 'not active': %s", desc)
		}
		if mustActive && notActive {
			return v("update-refused-as-expired", "UpdateClient on a client inside its trusting period was refused as 'not active': %s", desc)
		}
	case 2, 3, 4:
		pctx, _ := cctx.CacheContext()
		height := clienttypes.NewHeight(rev, H)
		if c.Client != "tm" {
			// an older recorded root (same state), so that the block delay has elapsed
			height = clienttypes.NewHeight(rev, H-5)
		}
		var err error
		what := ""
		switch c.Mode {
		case 2:
			what = "receive"
			err = pk.RecvPacket(pctx, pkt, proofOf(commitKey), height)
		case 3:
			what = "acknowledgement"
			pk.SetPacketCommitment(pctx, out.SourceChain, out.DestinationChain, out.Sequence, hsh(data))
			err = pk.AcknowledgePacket(pctx, out, ack, proofOf(ackKey), height)
		default:
			what = "receive-clean"
			pk.SetMaxAckSequence(pctx, c14Name, self, cleanN+3)
			err = pk.RecvCleanPacket(pctx, packettypes.NewCleanPacket(cleanN, c14Name, self, ""), proofOf(cleanKey), height)
		}
		col.Label(c.Client + ":packet-" + what)
		if mustExpired && err == nil {
			return v("packet-accepted-with-expired-client/"+what, "%s with a valid proof was accepted although the proving client is expired: %s", what, desc)
		}
		if mustActive && err != nil {
			return v("packet-refused-with-active-client/"+what, "%s with a valid proof was refused although the proving client is inside its trusting period: %v; %s", what, err, desc)
		}
	}
	if near || c.Mode >= 2 {
		col.MarkNontrivial(c)
	}
	return outcome{}
}

func TestC14(t *testing.T) {
	runProp(t, "C14",
		"case = client type (tm / bsc / eth), newest trusted timestamp (realistic 1.7e9 s and small magnitudes down to 100 s, tm with sub-second parts), trusting period (1 s .. 5e7 s, tm also +1 ns / +999999999 ns), block time = expiry boundary + {-2,-1,0,1,2,3 client units, +-1000, +-1e9, far} with an arbitrary sub-second part for bsc/eth, and a mode: Status(), the Active gate of ClientKeeper.UpdateClient (distinguished by ErrClientNotActive), or PacketKeeper.RecvPacket / AcknowledgePacket / RecvCleanPacket with a *valid* proof (real IAVL proof for tm, real account+storage trie proof for bsc/eth) so that only the client's status can refuse it; oracle = arithmetic in the client's own unit: block time >= ts+period+1 unit => Expired, update refused as not active, packet messages refused; block time < ts+period => Active, update not refused for expiry, the validly proven packet message accepted; inside the single boundary unit either answer is allowed, but for bsc/eth (unit = second) Status() must not depend on the sub-second part of the block time; non-trivial = block time within 3 units of the boundary, or a packet-message mode",
		genC14, checkC14)
}
