package props

import (
	"testing"

	"verifharness/sim"
)

var profileC04 = []kindW{{"nftissue", 2}, {"nftmint", 4}, {"nftxfer", 2}, {"nftburn", 1}, {"nftsend", 12}, {"flow", 6}, {"round", 8},
	{"recv", 1}, {"ack", 1}, {"replay", 2}, {"update", 1}, {"mocksend", 1}, {"rules", 3}, {"nftraid", 4}, {"nftforge", 3}, {"restart", 1}}

func TestC04(t *testing.T) {
	runProp(t, "C04",
		"case = topology + up to 60 ops: NFT issue/mint/transfer/burn by 3 users per chain with ids shared across classes and chains (plain class ids, plus native classes whose id reads like a class path between real chains or carries chain names and '/' in other positions), cross-chain sends over direct and relayed routes with valid/invalid/blank receivers, arbitrary delivery order, replays; oracle = (1) global: every live native NFT has exactly one holder = user-held representation (class resolved through the ClassTrace query) or packet in flight, nothing user-held that is not a live native NFT, (2) per step: the token snapshot of the chain changes only as the step allows (send: exactly that token to escrow or burned; delivered receive: exactly one voucher for the named receiver with trail = sender trail + this chain, or escrow release of exactly that identity; error ack on source: exact inverse of the send; everything else: no change); non-trivial = >=2 tokens with the same id in different classes in play AND a voucher sent onward (>=2 hops)",
		genWorldCaseAB(profileC04, 2, 4, 12, 60, 7),
		func(c WorldCase, col *Collector) outcome {
			s := sim.New(buildWorld(c))
			ts := sim.NewTokenState("C04")
			s.Checkers = []func(*sim.Sim, *sim.Step) *sim.Violation{sim.CheckTokens(ts), sim.CheckNFTConservation(ts)}
			out := runOpsKnown(s, append(tokenPreamble(c.N), c.Ops...), col)
			col.AddLabels(s.Labels)
			if sameIDDifferentClass(ts) && s.Labels["voucher-sent-on"] > 0 {
				col.MarkNontrivial(map[string]any{"n": c.N, "trace": tail(s.Trace, 14)})
			}
			return out
		})
}

func sameIDDifferentClass(ts *sim.TokenState) bool {
	seen := map[string]string{}
	for id := range ts.NFTLive {
		k := id.ID
		if prev, ok := seen[k]; ok && prev != id.Origin+"/"+id.Base {
			return true
		}
		seen[k] = id.Origin + "/" + id.Base
	}
	return false
}

var profileC05 = []kindW{{"mtissue", 1}, {"mtmint", 4}, {"mtxfer", 2}, {"mtburn", 1}, {"mtsend", 12}, {"flow", 6}, {"round", 8},
	{"recv", 1}, {"ack", 1}, {"replay", 2}, {"update", 1}, {"rules", 1}, {"restart", 1}}

func TestC05(t *testing.T) {
	runProp(t, "C05",
		"case = topology + up to 60 ops: MT issue/mint (amounts from {1,2,3,7,2^32,2^63-1,2^63,2^64-2,2^64-1}), transfers, burns, cross-chain sends of all/half/1/bal-1/bal+1/0 units over direct and relayed routes, returns of parts, error acks (invalid receivers), any delivery order; all sums in big.Int; oracle = for every class node (native lot x trail): escrow == voucher supply one hop further + in-flight backed by it (+ units their holders burned), supply == balances, user-held over all chains + in flight == minted - burned, no supply above the native mint; plus the per-step delta rule; non-trivial = a voucher sent onward or returned AND a refund processed AND an amount >= 2^63 in play",
		genWorldCaseAB(profileC05, 2, 4, 12, 60, 7),
		func(c WorldCase, col *Collector) outcome {
			s := sim.New(buildWorld(c))
			ts := sim.NewTokenState("C05")
			s.Checkers = []func(*sim.Sim, *sim.Step) *sim.Violation{sim.CheckTokens(ts), sim.CheckMTConservation(ts)}
			// fixed prefix: a lot of 2^63 units, part of it sent to the next chain, forwarded to an undecodable
			// receiver (refund), and part returned
			prefix := []sim.Op{{K: "mtmint", A: 0, B: 0, C: 0, D: 6, U: 0}, {K: "mtsend", A: 0, B: 1, C: 0, D: 0, U: 1 << 8}, {K: "round", A: 0},
				{K: "mtsend", A: 1, B: 0, C: 1, D: 0, U: 3 | 2<<8}, {K: "round", A: 1}, {K: "mtsend", A: 1, B: 0, C: 0, D: 0, U: 2 << 8}, {K: "round", A: 2}}
			out := runOps(s, append(append(tokenPreamble(c.N), prefix...), c.Ops...))
			col.AddLabels(s.Labels)
			big := false
			for _, v := range ts.MTMinted {
				if v.BitLen() >= 64 {
					big = true
				}
			}
			if big {
				col.Label("case-with-amount>=2^63")
			}
			if s.Labels["voucher-sent-on"] > 0 && s.Labels["refund-processed"] > 0 && big {
				col.MarkNontrivial(map[string]any{"n": c.N, "trace": tail(s.Trace, 14)})
			}
			return out
		})
}

var profileC19 = []kindW{{"nftsend", 8}, {"mtsend", 8}, {"mocksend", 4}, {"flow", 6}, {"round", 6}, {"recv", 6}, {"ack", 6}, {"clean", 3},
	{"recvclean", 3}, {"replay", 3}, {"update", 1}, {"rules", 2}, {"nftmint", 2}, {"mtmint", 2}, {"nftxfer", 1}, {"hostile", 6}, {"kwack", 1}, {"batch", 5}, {"nftforge", 2}, {"restart", 1}}

func TestC19(t *testing.T) {
	runProp(t, "C19",
		"case = topology + up to 60 ops with a high rate of failing messages at every stage (stateless validation, proof, routing/whitelist, application callback with hostile packet data on the NFT/MT ports, late failures such as an existing ack); oracle = a message with code != 0 leaves the tibc, nft, mt and NFT stores byte-identical (full KV dump of the versions before and after its block); a receive answered with an error ack leaves the token snapshot (owners, balances, supplies) unchanged and changes in the tibc store exactly receipt + ack (+ max-ack marker); non-trivial = a failing message whose fault lies behind stateless validation and the ante handler (proof / routing / callback stage) AND an error-acked receive on the NFT or MT port",
		genWorldCaseAB(profileC19, 2, 4, 12, 60, 7),
		func(c WorldCase, col *Collector) outcome {
			s := sim.New(buildWorld(c))
			s.Checkers = []func(*sim.Sim, *sim.Step) *sim.Violation{sim.CheckAtomicity("C19"), sim.CheckErrorAckFootprint("C19"), sim.LabelFailureStage}
			out := runOps(s, append(tokenPreamble(c.N), c.Ops...))
			col.AddLabels(s.Labels)
			deep := s.Labels["stage:proof"]+s.Labels["stage:routing"]+s.Labels["stage:callback"]+s.Labels["stage:after-first-write"] > 0
			if deep && s.Labels["error-ack-on-dest:NFT"]+s.Labels["error-ack-on-dest:MT"] > 0 {
				col.MarkNontrivial(map[string]any{"n": c.N, "trace": tail(s.Trace, 14)})
			}
			return out
		})
}
