package world

import (
	"fmt"
	dbm "github.com/cosmos/cosmos-db"
	"sort"
	"strconv"
	"time"

	abci "github.com/cometbft/cometbft/abci/types"
	sdk "github.com/cosmos/cosmos-sdk/types"

	clienttypes "github.com/bianjieai/tibc-go/modules/tibc/core/02-client/types"
	packettypes "github.com/bianjieai/tibc-go/modules/tibc/core/04-packet/types"
	commitmenttypes "github.com/bianjieai/tibc-go/modules/tibc/core/23-commitment/types"
	host "github.com/bianjieai/tibc-go/modules/tibc/core/24-host"
	ibctm "github.com/bianjieai/tibc-go/modules/tibc/light-clients/07-tendermint/types"
)

var ChainNames = []string{"chainalpha", "chainbravo", "chaincharl", "chaindelta"}

// World is a set of chains sharing one clock.
type World struct {
	Chains map[string]*Chain
	Order  []string
	now    time.Time
	// Links[a][b] == true when chain a has a light client for chain b.
	Links map[string]map[string]bool
}

// Config describes the topology.
type Config struct {
	N int // number of chains (2..4)
	// NoLink lists ordered pairs "a>b" for which a does NOT get a client of b. Default: full mesh.
	NoLink map[string]bool
	// TrustingPeriod for all TM clients (0 = default two weeks).
	TrustingPeriod time.Duration
	// TimeDelay (ns) for all TM clients.
	TimeDelay uint64
	KeepLog   bool
	// Rules stored at genesis on every chain (nil => "*,*,*"; empty non-nil slice => deny all).
	Rules []string
}

func (w *World) Now() time.Time { return w.now }

// Tick advances the clock by one block step and returns the new time.
func (w *World) Tick() time.Time {
	w.now = w.now.Add(BlockStep)
	return w.now
}

// Advance moves the clock forward by d (no block is produced).
func (w *World) Advance(d time.Duration) { w.now = w.now.Add(d) }

// New builds the world: chains, block 1, mutual Tendermint clients.
func New(cfg Config) *World {
	w := &World{Chains: map[string]*Chain{}, now: GenesisTime, Links: map[string]map[string]bool{}}
	names := ChainNames[:cfg.N]
	for _, n := range names {
		var others []string
		for _, o := range ChainNames { // relayer registered for every possible counterparty name
			if o != n {
				others = append(others, o)
			}
		}
		c := NewChainWithLog(w, ChainConfig{Name: n, RelayersFor: others, Rules: cfg.Rules}, cfg.KeepLog)
		w.Chains[n] = c
		w.Order = append(w.Order, n)
		w.Links[n] = map[string]bool{}
	}
	// every chain needs at least one more block so that a header with its genesis state exists
	for _, n := range names {
		w.Chains[n].CommitEmpty(1)
	}
	for _, a := range names {
		for _, b := range names {
			if a == b || cfg.NoLink[a+">"+b] {
				continue
			}
			w.CreateTMClient(a, b, cfg.TrustingPeriod, cfg.TimeDelay)
		}
	}
	for _, n := range names {
		w.Chains[n].CommitEmpty(1)
	}
	return w
}

func NewChainWithLog(w *World, cfg ChainConfig, keep bool) *Chain {
	db := dbm.NewMemDB()
	app := newAppOn(cfg.Name, db)
	vals, signers := deterministicValidators(cfg.Name)
	accs := deterministicAccounts(cfg.Name)
	gs := BuildGenesis(app, cfg, vals, accs)
	c := &Chain{W: w, Name: cfg.Name, App: app, DB: db, Vals: vals, Signers: signers, Accounts: accs,
		blocks: map[int64]blockInfo{}, headers: map[int64]*ibctm.Header{}, Genesis: gs, KeepLog: keep}
	c.initChain()
	return c
}

// CreateTMClient creates on chain `on` a Tendermint client of chain `of` at of's latest
// committed height, through the keeper (as a passed governance proposal would).
func (w *World) CreateTMClient(on, of string, trusting time.Duration, timeDelay uint64) {
	a, b := w.Chains[on], w.Chains[of]
	if trusting == 0 {
		trusting = DefaultTrustingPeriod
	}
	h := b.Header(b.Height)
	cs := ibctm.NewClientState(b.Name, ibctm.DefaultTrustLevel, trusting, DefaultUnbondingPeriod, DefaultMaxClockDrift,
		clienttypes.NewHeight(0, uint64(b.Height)), commitmenttypes.GetSDKSpecs(), Prefix, timeDelay)
	ctx := a.Ctx()
	if err := a.App.TIBCKeeper.ClientKeeper.CreateClient(ctx, of, cs, h.ConsensusState()); err != nil {
		panic(err)
	}
	a.CommitEmpty(1)
	w.Links[on][of] = true
}

// UpdateHeader builds the MsgUpdateClient header for `of` at height h, trusted at `trusted`.
func (w *World) UpdateHeader(of string, h, trusted int64) *ibctm.Header {
	b := w.Chains[of]
	hd := b.Header(h)
	hd.TrustedHeight = clienttypes.NewHeight(0, uint64(trusted))
	tv, err := b.Vals.ToProto()
	if err != nil {
		panic(err)
	}
	hd.TrustedValidators = tv
	return hd
}

// UpdateClient commits a block on `of` and updates on's client of it to of's latest height.
func (w *World) UpdateClient(on, of string) *abci.ExecTxResult {
	a, b := w.Chains[on], w.Chains[of]
	b.CommitEmpty(1)
	trusted := int64(a.ClientLatestHeight(of))
	hd := w.UpdateHeader(of, b.Height, trusted)
	msg, err := clienttypes.NewMsgUpdateClient(of, hd, a.Accounts[RelayerIdx].Addr)
	if err != nil {
		panic(err)
	}
	return a.Deliver(a.Accounts[RelayerIdx], msg)
}

// EnsureProvable makes sure on's client of `of` has a consensus state that covers of's
// current committed state; returns the proof height to use.
func (w *World) EnsureProvable(on, of string) (int64, error) {
	a, b := w.Chains[on], w.Chains[of]
	latest := int64(a.ClientLatestHeight(of))
	if latest == b.Height+0 && false {
		return latest, nil
	}
	// state committed in block H is provable with header H+1
	if latest >= b.Height+1 {
		return latest, nil
	}
	res := w.UpdateClient(on, of)
	if res.Code != 0 {
		return 0, fmt.Errorf("update client %s on %s failed: %s", of, on, res.Log)
	}
	return b.Height, nil
}

// ---- packets -------------------------------------------------------------------------------

// PacketFromEvents extracts the packets announced by send_packet events.
func PacketsFromEvents(events []abci.Event) []packettypes.Packet {
	var out []packettypes.Packet
	for _, ev := range events {
		if ev.Type != packettypes.EventTypeSendPacket {
			continue
		}
		out = append(out, packetFromAttrs(ev.Attributes))
	}
	return out
}

func packetFromAttrs(attrs []abci.EventAttribute) packettypes.Packet {
	var p packettypes.Packet
	for _, a := range attrs {
		switch a.Key {
		case packettypes.AttributeKeyData:
			p.Data = []byte(a.Value)
		case packettypes.AttributeKeySequence:
			p.Sequence, _ = strconv.ParseUint(a.Value, 10, 64)
		case packettypes.AttributeKeyPort:
			p.Port = a.Value
		case packettypes.AttributeKeySrcChain:
			p.SourceChain = a.Value
		case packettypes.AttributeKeyDstChain:
			p.DestinationChain = a.Value
		case packettypes.AttributeKeyRelayChain:
			p.RelayChain = a.Value
		}
	}
	return p
}

// AckFromEvents returns packets and ack bytes announced by write_acknowledgement events.
type WrittenAck struct {
	Packet packettypes.Packet
	Ack    []byte
}

func AcksFromEvents(events []abci.Event) []WrittenAck {
	var out []WrittenAck
	for _, ev := range events {
		if ev.Type != packettypes.EventTypeWriteAck {
			continue
		}
		wa := WrittenAck{Packet: packetFromAttrs(ev.Attributes)}
		for _, a := range ev.Attributes {
			if a.Key == packettypes.AttributeKeyAck {
				wa.Ack = []byte(a.Value)
			}
		}
		out = append(out, wa)
	}
	return out
}

func HasEvent(events []abci.Event, typ string) bool {
	for _, ev := range events {
		if ev.Type == typ {
			return true
		}
	}
	return false
}

// RecvMsg builds a MsgRecvPacket for delivery on chain `on`, proven from chain `from` at proofHeight.
func (w *World) RecvMsg(on, from string, p packettypes.Packet, proofHeight int64, signer sdk.AccAddress) (*packettypes.MsgRecvPacket, error) {
	key := host.PacketCommitmentKey(p.SourceChain, p.DestinationChain, p.Sequence)
	proof, err := w.Chains[from].QueryProof(key, proofHeight)
	if err != nil {
		return nil, err
	}
	return packettypes.NewMsgRecvPacket(p, proof, clienttypes.NewHeight(0, uint64(proofHeight)), signer), nil
}

func (w *World) AckMsg(on, from string, p packettypes.Packet, ack []byte, proofHeight int64, signer sdk.AccAddress) (*packettypes.MsgAcknowledgement, error) {
	key := host.PacketAcknowledgementKey(p.SourceChain, p.DestinationChain, p.Sequence)
	proof, err := w.Chains[from].QueryProof(key, proofHeight)
	if err != nil {
		return nil, err
	}
	return packettypes.NewMsgAcknowledgement(p, ack, proof, clienttypes.NewHeight(0, uint64(proofHeight)), signer), nil
}

func (w *World) RecvCleanMsg(on, from string, cp packettypes.CleanPacket, proofHeight int64, signer sdk.AccAddress) (*packettypes.MsgRecvCleanPacket, error) {
	key := host.CleanPacketCommitmentKey(cp.SourceChain, cp.DestinationChain)
	proof, err := w.Chains[from].QueryProof(key, proofHeight)
	if err != nil {
		return nil, err
	}
	return packettypes.NewMsgRecvCleanPacket(cp, proof, clienttypes.NewHeight(0, uint64(proofHeight)), signer), nil
}

// RecvProver returns the chain a MsgRecvPacket delivered on `on` must be proven from,
// per the protocol description (relay chain when `on` is the destination of a relayed packet).
func RecvProver(on string, p packettypes.Packet) string {
	if p.DestinationChain == on && p.RelayChain != "" {
		return p.RelayChain
	}
	return p.SourceChain
}

// AckProver returns the chain a MsgAcknowledgement delivered on `on` must be proven from.
func AckProver(on string, p packettypes.Packet) string {
	if p.SourceChain == on && p.RelayChain != "" {
		return p.RelayChain
	}
	return p.DestinationChain
}

// NextRecvHop returns where a packet committed on chain `at` goes next ("" if nowhere).
func NextRecvHop(at string, p packettypes.Packet) string {
	if at == p.SourceChain {
		if p.RelayChain != "" {
			return p.RelayChain
		}
		return p.DestinationChain
	}
	if at == p.RelayChain {
		return p.DestinationChain
	}
	return ""
}

// NextAckHop returns where an ack written on chain `at` goes next.
func NextAckHop(at string, p packettypes.Packet) string {
	if at == p.DestinationChain {
		if p.RelayChain != "" {
			return p.RelayChain
		}
		return p.SourceChain
	}
	if at == p.RelayChain {
		return p.SourceChain
	}
	return ""
}

// SortedKeys helper for deterministic iteration.
func SortedKeys[V any](m map[string]V) []string {
	ks := make([]string, 0, len(m))
	for k := range m {
		ks = append(ks, k)
	}
	sort.Strings(ks)
	return ks
}
