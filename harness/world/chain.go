// Package world is a deterministic multi-chain test world built on real
// simapp instances, real IAVL proofs and really-signed Tendermint headers.
// Nothing in here reads the wall clock or a private RNG: every choice comes
// from the caller (rapid draws or a replay file).
package world

import (
	"context"
	"encoding/json"
	"fmt"
	"sort"
	"time"

	"cosmossdk.io/log"
	sdkmath "cosmossdk.io/math"
	storetypes "cosmossdk.io/store/types"
	abci "github.com/cometbft/cometbft/abci/types"
	"github.com/cometbft/cometbft/crypto/ed25519"
	"github.com/cometbft/cometbft/crypto/tmhash"
	cmtproto "github.com/cometbft/cometbft/proto/tendermint/types"
	cmtprotoversion "github.com/cometbft/cometbft/proto/tendermint/version"
	cmttypes "github.com/cometbft/cometbft/types"
	cmtversion "github.com/cometbft/cometbft/version"
	dbm "github.com/cosmos/cosmos-db"
	"github.com/cosmos/cosmos-sdk/baseapp"
	codectypes "github.com/cosmos/cosmos-sdk/codec/types"
	cryptocodec "github.com/cosmos/cosmos-sdk/crypto/codec"
	"github.com/cosmos/cosmos-sdk/crypto/keys/secp256k1"
	cryptotypes "github.com/cosmos/cosmos-sdk/crypto/types"
	sdk "github.com/cosmos/cosmos-sdk/types"
	"github.com/cosmos/cosmos-sdk/types/tx/signing"
	authsign "github.com/cosmos/cosmos-sdk/x/auth/signing"
	authtypes "github.com/cosmos/cosmos-sdk/x/auth/types"
	banktypes "github.com/cosmos/cosmos-sdk/x/bank/types"
	stakingtypes "github.com/cosmos/cosmos-sdk/x/staking/types"

	clienttypes "github.com/bianjieai/tibc-go/modules/tibc/core/02-client/types"
	commitmenttypes "github.com/bianjieai/tibc-go/modules/tibc/core/23-commitment/types"
	host "github.com/bianjieai/tibc-go/modules/tibc/core/24-host"
	"github.com/bianjieai/tibc-go/modules/tibc/core/exported"
	coretypes "github.com/bianjieai/tibc-go/modules/tibc/core/types"
	ibctm "github.com/bianjieai/tibc-go/modules/tibc/light-clients/07-tendermint/types"
	"github.com/bianjieai/tibc-go/simapp"
)

const (
	NumValidators = 4
	NumUsers      = 3 // accounts 0..2 are users, 3 is the relayer, 4 an outsider
	RelayerIdx    = 3
	OutsiderIdx   = 4
	NumAccounts   = 5

	BlockStep = 5 * time.Second

	DefaultTrustingPeriod  = 14 * 24 * time.Hour
	DefaultUnbondingPeriod = 21 * 24 * time.Hour
	DefaultMaxClockDrift   = 10 * time.Second
)

var GenesisTime = time.Date(2024, 1, 1, 0, 0, 0, 0, time.UTC)

var Prefix = commitmenttypes.MerklePrefix{KeyPrefix: []byte(host.StoreKey)}

type Account struct {
	Name   string
	Priv   cryptotypes.PrivKey
	Addr   sdk.AccAddress
	AccNum uint64
}

type blockInfo struct {
	Time          time.Time
	AppHashBefore []byte // app hash committed by block h-1 == AppHash field of header h
}

// Chain is one simapp instance plus the data a relayer and a validator set
// would hold about it.
type Chain struct {
	W        *World
	Name     string
	App      *simapp.SimApp
	Vals     *cmttypes.ValidatorSet
	Signers  map[string]cmttypes.PrivValidator
	Accounts []*Account
	Height   int64 // last committed height
	blocks   map[int64]blockInfo
	headers  map[int64]*ibctm.Header
	Genesis  map[string]json.RawMessage
	DB       dbm.DB // the application's database (kept for Restart)
	// TxLog records every block for re-execution (C20).
	TxLog []BlockRecord
	// KeepLog controls whether TxLog is filled.
	KeepLog bool
	// Mirror, when set, receives every message delivered to this chain too (signed with the mirror's
	// own account sequence, in a block with the same block time); MirrorRes is the mirror's result of
	// the last delivery. Used to compare a chain with its re-imported copy (C16).
	Mirror    *Chain
	MirrorRes *abci.ExecTxResult
}

type BlockRecord struct {
	Height  int64
	Time    time.Time
	Txs     [][]byte
	AppHash []byte
	Results [][]byte // deterministic encoding of each ExecTxResult
}

func deterministicValidators(chainName string) (*cmttypes.ValidatorSet, map[string]cmttypes.PrivValidator) {
	vals := make([]*cmttypes.Validator, 0, NumValidators)
	signers := map[string]cmttypes.PrivValidator{}
	for i := 0; i < NumValidators; i++ {
		pk := ed25519.GenPrivKeyFromSecret([]byte(fmt.Sprintf("verif/val/%s/%d", chainName, i)))
		pv := cmttypes.NewMockPVWithParams(pk, false, false)
		pub, _ := pv.GetPubKey()
		vals = append(vals, cmttypes.NewValidator(pub, 1))
		signers[pub.Address().String()] = pv
	}
	return cmttypes.NewValidatorSet(vals), signers
}

func deterministicAccounts(chainName string) []*Account {
	names := []string{"u0", "u1", "u2", "relayer", "outsider"}
	accs := make([]*Account, 0, NumAccounts)
	for i := 0; i < NumAccounts; i++ {
		// user keys are shared across chains (same person on every chain) so
		// that an address valid on one chain is a valid receiver on another.
		priv := secp256k1.GenPrivKeyFromSecret([]byte(fmt.Sprintf("verif/acc/%d", i)))
		accs = append(accs, &Account{
			Name:   names[i],
			Priv:   priv,
			Addr:   sdk.AccAddress(priv.PubKey().Address()),
			AccNum: uint64(i),
		})
	}
	_ = chainName
	return accs
}

// ChainConfig describes how a chain is created.
type ChainConfig struct {
	Name string
	// RelayersFor lists the counterparty chain names for which the relayer
	// account is registered at genesis.
	RelayersFor []string
	// Rules are the routing rules stored at genesis (nil => allow everything, "*,*,*").
	Rules []string
	// GenesisOverride, when non-nil, replaces module genesis sections (used by C16 re-import).
	GenesisOverride map[string]json.RawMessage
}

func newApp(chainID string) *simapp.SimApp {
	return newAppOn(chainID, dbm.NewMemDB())
}

func newAppOn(chainID string, db dbm.DB) *simapp.SimApp {
	return simapp.NewSimApp(log.NewNopLogger(), db, nil, true, simapp.EmptyAppOptions{}, baseapp.SetChainID(chainID))
}

// Restart replaces the application object by a fresh one over the same database, as a node restart does:
// everything the old object held in memory is gone, everything committed is still there.
func (c *Chain) Restart() {
	if c.DB == nil {
		return
	}
	c.App = newAppOn(c.Name, c.DB)
	if got := c.App.LastBlockHeight(); got != c.Height {
		panic(fmt.Sprintf("restart of %s: application is at height %d, chain at %d", c.Name, got, c.Height))
	}
}

// BuildGenesis returns the deterministic genesis for a chain.
func BuildGenesis(app *simapp.SimApp, cfg ChainConfig, vals *cmttypes.ValidatorSet, accs []*Account) map[string]json.RawMessage {
	cdc := app.AppCodec()
	gs := simapp.NewDefaultGenesisState(cdc)

	genAccs := []authtypes.GenesisAccount{}
	balances := []banktypes.Balance{}
	amount, _ := sdkmath.NewIntFromString("10000000000000000000")
	for _, a := range accs {
		ba := authtypes.NewBaseAccount(a.Addr, a.Priv.PubKey(), a.AccNum, 0)
		genAccs = append(genAccs, ba)
		balances = append(balances, banktypes.Balance{Address: a.Addr.String(), Coins: sdk.NewCoins(sdk.NewCoin(sdk.DefaultBondDenom, amount))})
	}
	gs[authtypes.ModuleName] = cdc.MustMarshalJSON(authtypes.NewGenesisState(authtypes.DefaultParams(), genAccs))

	validators := make([]stakingtypes.Validator, 0, len(vals.Validators))
	delegations := make([]stakingtypes.Delegation, 0, len(vals.Validators))
	bondAmt := sdk.TokensFromConsensusPower(1, sdk.DefaultPowerReduction)
	for _, val := range vals.Validators {
		pk, err := cryptocodec.FromCmtPubKeyInterface(val.PubKey)
		if err != nil {
			panic(err)
		}
		pkAny, err := codectypes.NewAnyWithValue(pk)
		if err != nil {
			panic(err)
		}
		validators = append(validators, stakingtypes.Validator{
			OperatorAddress: sdk.ValAddress(val.Address).String(),
			ConsensusPubkey: pkAny,
			Status:          stakingtypes.Bonded,
			Tokens:          bondAmt,
			DelegatorShares: sdkmath.LegacyOneDec(),
			UnbondingTime:   time.Unix(0, 0).UTC(),
			Commission: stakingtypes.NewCommission(sdkmath.LegacyZeroDec(),
				sdkmath.LegacyZeroDec(), sdkmath.LegacyZeroDec()),
			MinSelfDelegation: sdkmath.ZeroInt(),
		})
		delegations = append(delegations, stakingtypes.NewDelegation(genAccs[0].GetAddress().String(),
			sdk.ValAddress(val.Address.Bytes()).String(), sdkmath.LegacyOneDec()))
	}
	var stakingGenesis stakingtypes.GenesisState
	cdc.MustUnmarshalJSON(gs[stakingtypes.ModuleName], &stakingGenesis)
	balances = append(balances, banktypes.Balance{
		Address: authtypes.NewModuleAddress(stakingtypes.BondedPoolName).String(),
		Coins:   sdk.Coins{sdk.NewCoin(stakingGenesis.Params.BondDenom, bondAmt.Mul(sdkmath.NewInt(int64(len(vals.Validators)))))},
	})
	stakingGenesis = *stakingtypes.NewGenesisState(stakingGenesis.Params, validators, delegations)
	gs[stakingtypes.ModuleName] = cdc.MustMarshalJSON(&stakingGenesis)
	gs[banktypes.ModuleName] = cdc.MustMarshalJSON(banktypes.NewGenesisState(
		banktypes.DefaultGenesisState().Params, balances, sdk.NewCoins(), []banktypes.Metadata{}, []banktypes.SendEnabled{}))

	// tibc: native chain name and relayer registry
	var tibcGen coretypes.GenesisState
	cdc.MustUnmarshalJSON(gs[host.ModuleName], &tibcGen)
	tibcGen.ClientGenesis.NativeChainName = cfg.Name
	rel := accs[RelayerIdx].Addr.String()
	names := append([]string{}, cfg.RelayersFor...)
	sort.Strings(names)
	tibcGen.ClientGenesis.Relayers = nil
	for _, n := range names {
		tibcGen.ClientGenesis.Relayers = append(tibcGen.ClientGenesis.Relayers,
			clienttypes.IdentifiedRelayers{ChainName: n, Relayers: []string{rel}})
	}
	if cfg.Rules == nil {
		tibcGen.RoutingGenesis.Rules = []string{"*,*,*"}
	} else {
		tibcGen.RoutingGenesis.Rules = cfg.Rules
	}
	gs[host.ModuleName] = cdc.MustMarshalJSON(&tibcGen)

	for k, v := range cfg.GenesisOverride {
		gs[k] = v
	}
	return gs
}

// NewChain creates and initialises a chain and commits block 1.
func NewChain(w *World, cfg ChainConfig) *Chain {
	db := dbm.NewMemDB()
	app := newAppOn(cfg.Name, db)
	vals, signers := deterministicValidators(cfg.Name)
	accs := deterministicAccounts(cfg.Name)
	gs := BuildGenesis(app, cfg, vals, accs)
	c := &Chain{W: w, Name: cfg.Name, App: app, DB: db, Vals: vals, Signers: signers, Accounts: accs,
		blocks: map[int64]blockInfo{}, headers: map[int64]*ibctm.Header{}, Genesis: gs}
	c.initChain()
	return c
}

func (c *Chain) initChain() {
	stateBytes, err := json.Marshal(c.Genesis)
	if err != nil {
		panic(err)
	}
	if _, err := c.App.InitChain(&abci.RequestInitChain{
		ChainId:         c.Name,
		Time:            GenesisTime,
		Validators:      []abci.ValidatorUpdate{},
		ConsensusParams: simapp.DefaultConsensusParams,
		AppStateBytes:   stateBytes,
	}); err != nil {
		panic(err)
	}
	c.Height = 0
	c.finalize(nil)
}

// finalize runs one block with the given txs at the world's current time.
func (c *Chain) finalize(txs [][]byte) *abci.ResponseFinalizeBlock {
	return c.finalizeAt(txs, c.W.Tick())
}

func (c *Chain) finalizeAt(txs [][]byte, t time.Time) *abci.ResponseFinalizeBlock {
	h := c.Height + 1
	before := c.App.LastCommitID().Hash
	res, err := c.App.FinalizeBlock(&abci.RequestFinalizeBlock{
		Height:             h,
		Time:               t,
		NextValidatorsHash: c.Vals.Hash(),
		Txs:                txs,
	})
	if err != nil {
		panic(fmt.Sprintf("FinalizeBlock on %s failed: %v", c.Name, err))
	}
	if _, err := c.App.Commit(); err != nil {
		panic(err)
	}
	c.blocks[h] = blockInfo{Time: t, AppHashBefore: append([]byte{}, before...)}
	c.Height = h
	if c.KeepLog {
		rec := BlockRecord{Height: h, Time: t, Txs: txs, AppHash: append([]byte{}, c.App.LastCommitID().Hash...)}
		for _, r := range res.TxResults {
			rec.Results = append(rec.Results, EncodeResult(r))
		}
		c.TxLog = append(c.TxLog, rec)
	}
	return res
}

// EncodeResult is a deterministic byte encoding of everything observable in a tx result.
func EncodeResult(r *abci.ExecTxResult) []byte {
	bz, err := r.Marshal()
	if err != nil {
		panic(err)
	}
	return bz
}

// CommitEmpty commits n empty blocks.
func (c *Chain) CommitEmpty(n int) {
	for i := 0; i < n; i++ {
		c.finalize(nil)
		if c.Mirror != nil {
			c.Mirror.finalizeAt(nil, c.blocks[c.Height].Time)
		}
	}
}

// BlockTime returns the time of a committed block.
func (c *Chain) BlockTime(h int64) time.Time { return c.blocks[h].Time }

// Ctx returns a read context on the latest committed state (writes go straight to the
// root store's working set; only used by setup code).
func (c *Chain) Ctx() sdk.Context {
	return c.App.BaseApp.NewUncachedContext(false, cmtproto.Header{
		ChainID: c.Name, Height: c.Height + 1, Time: c.W.Now(),
	})
}

// CtxAt returns a read-only context over the state committed at `version`.
func (c *Chain) CtxAt(version int64) (sdk.Context, error) {
	ms, err := c.App.CommitMultiStore().CacheMultiStoreWithVersion(version)
	if err != nil {
		return sdk.Context{}, err
	}
	return sdk.NewContext(ms, cmtproto.Header{ChainID: c.Name, Height: version, Time: c.blocks[version].Time}, false, log.NewNopLogger()), nil
}

// Branch returns a context whose writes are discarded unless write() is called.
func (c *Chain) Branch() (sdk.Context, func()) {
	return c.Ctx().CacheContext()
}

// BuildTx signs msgs with the account's current on-chain sequence.
func (c *Chain) BuildTx(acc *Account, msgs ...sdk.Msg) ([]byte, error) {
	txCfg := c.App.GetTxConfig()
	seq := uint64(0)
	if a := c.App.AccountKeeper.GetAccount(c.Ctx(), acc.Addr); a != nil {
		seq = a.GetSequence()
	}
	signMode, err := authsign.APISignModeToInternal(txCfg.SignModeHandler().DefaultMode())
	if err != nil {
		return nil, err
	}
	sig := signing.SignatureV2{PubKey: acc.Priv.PubKey(), Data: &signing.SingleSignatureData{SignMode: signMode}, Sequence: seq}
	b := txCfg.NewTxBuilder()
	if err := b.SetMsgs(msgs...); err != nil {
		return nil, err
	}
	if err := b.SetSignatures(sig); err != nil {
		return nil, err
	}
	b.SetFeeAmount(sdk.Coins{sdk.NewInt64Coin(sdk.DefaultBondDenom, 0)})
	b.SetGasLimit(50_000_000)
	signerData := authsign.SignerData{
		Address: acc.Addr.String(), ChainID: c.Name, AccountNumber: acc.AccNum, Sequence: seq, PubKey: acc.Priv.PubKey(),
	}
	signBytes, err := authsign.GetSignBytesAdapter(context.Background(), txCfg.SignModeHandler(), signMode, signerData, b.GetTx())
	if err != nil {
		return nil, err
	}
	sigBz, err := acc.Priv.Sign(signBytes)
	if err != nil {
		return nil, err
	}
	sig.Data.(*signing.SingleSignatureData).Signature = sigBz
	if err := b.SetSignatures(sig); err != nil {
		return nil, err
	}
	return txCfg.TxEncoder()(b.GetTx())
}

// Deliver signs and delivers one tx in its own block and returns its result.
// A tx that cannot even be built (e.g. GetSigners panics on a malformed
// address) is reported as a synthetic failure with code 0xFFFF and no block.
func (c *Chain) Deliver(acc *Account, msgs ...sdk.Msg) (res *abci.ExecTxResult) {
	var txBz []byte
	func() {
		defer func() {
			if r := recover(); r != nil {
				res = &abci.ExecTxResult{Code: 0xFFFF, Log: fmt.Sprintf("tx build panic: %v", r)}
			}
		}()
		var err error
		txBz, err = c.BuildTx(acc, msgs...)
		if err != nil {
			res = &abci.ExecTxResult{Code: 0xFFFF, Log: "tx build error: " + err.Error()}
		}
	}()
	if res != nil {
		return res
	}
	res = c.DeliverRaw(txBz)
	if c.Mirror != nil {
		c.MirrorRes = c.Mirror.deliverAt(acc, c.blocks[c.Height].Time, msgs...)
	}
	return res
}

// deliverAt delivers msgs in a block with the given time (mirror chains).
func (c *Chain) deliverAt(acc *Account, t time.Time, msgs ...sdk.Msg) (res *abci.ExecTxResult) {
	defer func() {
		if r := recover(); r != nil {
			res = &abci.ExecTxResult{Code: 0xFFFF, Log: fmt.Sprintf("tx build panic: %v", r)}
		}
	}()
	txBz, err := c.BuildTx(acc, msgs...)
	if err != nil {
		return &abci.ExecTxResult{Code: 0xFFFF, Log: "tx build error: " + err.Error()}
	}
	r := c.finalizeAt([][]byte{txBz}, t)
	return r.TxResults[0]
}

// CommitEmptyAt commits one empty block with the given time.
func (c *Chain) CommitEmptyAt(t time.Time) { c.finalizeAt(nil, t) }

// DeliverRaw delivers pre-built tx bytes in their own block.
func (c *Chain) DeliverRaw(txBz []byte) *abci.ExecTxResult {
	r := c.finalize([][]byte{txBz})
	if len(r.TxResults) != 1 {
		panic("expected exactly one tx result")
	}
	return r.TxResults[0]
}

// Header returns the signed Tendermint header of committed block h (trusted fields unset).
func (c *Chain) Header(h int64) *ibctm.Header {
	if hd, ok := c.headers[h]; ok {
		cp := *hd
		return &cp
	}
	bi, ok := c.blocks[h]
	if !ok {
		panic(fmt.Sprintf("no block %d on %s", h, c.Name))
	}
	hd := MakeTMHeader(c.Name, h, bi.Time, bi.AppHashBefore, c.Vals, c.Vals, c.Signers, nil)
	c.headers[h] = hd
	cp := *hd
	return &cp
}

// MakeTMHeader builds and signs a Tendermint header. signIdx == nil means all validators sign.
func MakeTMHeader(chainID string, height int64, ts time.Time, appHash []byte,
	valSet, nextVals *cmttypes.ValidatorSet, signers map[string]cmttypes.PrivValidator, signIdx map[int]bool,
) *ibctm.Header {
	tmHeader := cmttypes.Header{
		Version:            cmtprotoversion.Consensus{Block: cmtversion.BlockProtocol, App: 2},
		ChainID:            chainID,
		Height:             height,
		Time:               ts,
		LastBlockID:        makeBlockID(make([]byte, tmhash.Size), 10_000, make([]byte, tmhash.Size)),
		LastCommitHash:     tmhash.Sum([]byte("last_commit_hash")),
		DataHash:           tmhash.Sum([]byte("data_hash")),
		ValidatorsHash:     valSet.Hash(),
		NextValidatorsHash: nextVals.Hash(),
		ConsensusHash:      tmhash.Sum([]byte("consensus_hash")),
		AppHash:            appHash,
		LastResultsHash:    tmhash.Sum([]byte("last_results_hash")),
		EvidenceHash:       tmhash.Sum([]byte("evidence_hash")),
		ProposerAddress:    valSet.Validators[0].Address,
	}
	blockID := makeBlockID(tmHeader.Hash(), 3, tmhash.Sum([]byte("part_set")))
	commit := MakeCommit(chainID, blockID, height, 1, valSet, signers, ts, signIdx)
	vsProto, err := valSet.ToProto()
	if err != nil {
		panic(err)
	}
	return &ibctm.Header{
		SignedHeader: &cmtproto.SignedHeader{Header: tmHeader.ToProto(), Commit: commit.ToProto()},
		ValidatorSet: vsProto,
	}
}

// MakeCommit signs precommits for blockID by the validators selected in signIdx (nil = all);
// others are marked absent.
func MakeCommit(chainID string, blockID cmttypes.BlockID, height int64, round int32,
	valSet *cmttypes.ValidatorSet, signers map[string]cmttypes.PrivValidator, ts time.Time, signIdx map[int]bool,
) *cmttypes.Commit {
	sigs := make([]cmttypes.CommitSig, len(valSet.Validators))
	for i, v := range valSet.Validators {
		if signIdx != nil && !signIdx[i] {
			sigs[i] = cmttypes.NewCommitSigAbsent()
			continue
		}
		pv, ok := signers[v.Address.String()]
		if !ok {
			sigs[i] = cmttypes.NewCommitSigAbsent()
			continue
		}
		vote := &cmttypes.Vote{
			ValidatorAddress: v.Address,
			ValidatorIndex:   int32(i),
			Height:           height,
			Round:            round,
			Type:             cmtproto.PrecommitType,
			BlockID:          blockID,
			Timestamp:        ts,
		}
		vp := vote.ToProto()
		if err := pv.SignVote(chainID, vp); err != nil {
			panic(err)
		}
		sigs[i] = cmttypes.CommitSig{
			BlockIDFlag:      cmttypes.BlockIDFlagCommit,
			ValidatorAddress: v.Address,
			Timestamp:        ts,
			Signature:        vp.Signature,
		}
	}
	return &cmttypes.Commit{Height: height, Round: round, BlockID: blockID, Signatures: sigs}
}

func makeBlockID(hash []byte, partSetSize uint32, partSetHash []byte) cmttypes.BlockID {
	return cmttypes.BlockID{Hash: hash, PartSetHeader: cmttypes.PartSetHeader{Total: partSetSize, Hash: partSetHash}}
}

// QueryProof returns the marshalled merkle proof for key in the tibc store, valid against the
// consensus state of height `proofHeight` (i.e. state committed by block proofHeight-1).
func (c *Chain) QueryProof(key []byte, proofHeight int64) ([]byte, error) {
	res, err := c.App.Query(context.Background(), &abci.RequestQuery{
		Path:   fmt.Sprintf("store/%s/key", host.StoreKey),
		Height: proofHeight - 1,
		Data:   key,
		Prove:  true,
	})
	if err != nil {
		return nil, err
	}
	if res.Code != 0 {
		return nil, fmt.Errorf("query failed: %s", res.Log)
	}
	mp, err := commitmenttypes.ConvertProofs(res.ProofOps)
	if err != nil {
		return nil, err
	}
	return c.App.AppCodec().Marshal(&mp)
}

// StoreGetAt reads a raw key of a named store at a committed version.
func (c *Chain) StoreGetAt(store string, key []byte, version int64) []byte {
	ms, err := c.App.CommitMultiStore().CacheMultiStoreWithVersion(version)
	if err != nil {
		return nil
	}
	return ms.GetKVStore(c.App.GetKey(store)).Get(key)
}

// StoreGet reads a raw key at the latest committed version.
func (c *Chain) StoreGet(store string, key []byte) []byte {
	return c.StoreGetAt(store, key, c.Height)
}

type KV struct{ K, V []byte }

// Dump returns all key/values of a store at a committed version, in key order.
func (c *Chain) Dump(store string, version int64) []KV {
	ms, err := c.App.CommitMultiStore().CacheMultiStoreWithVersion(version)
	if err != nil {
		panic(err)
	}
	it := ms.GetKVStore(c.App.GetKey(store)).Iterator(nil, nil)
	defer it.Close()
	var out []KV
	for ; it.Valid(); it.Next() {
		out = append(out, KV{append([]byte{}, it.Key()...), append([]byte{}, it.Value()...)})
	}
	return out
}

// StoreHash returns the commit hash of one store at the latest version.
func (c *Chain) StoreHash(store string) []byte {
	st := c.App.CommitMultiStore().GetCommitKVStore(c.App.GetKey(store))
	return st.LastCommitID().Hash
}

var _ = storetypes.StoreKey(nil)

// ClientLatestHeight returns the latest height of the client for chain `of` on c (0 if none).
func (c *Chain) ClientLatestHeight(of string) uint64 {
	cs, ok := c.App.TIBCKeeper.ClientKeeper.GetClientState(c.Ctx(), of)
	if !ok {
		return 0
	}
	return cs.GetLatestHeight().GetRevisionHeight()
}

// HasConsensusState reports whether c's client for `of` has a consensus state at height h.
func (c *Chain) HasConsensusState(of string, h uint64) bool {
	return c.App.TIBCKeeper.ClientKeeper.HasClientConsensusState(c.Ctx(), of, clienttypes.NewHeight(0, h))
}

var _ exported.Height = clienttypes.Height{}
