package sim

import (
	"fmt"
	"sort"
	"strings"
	"time"

	sdk "github.com/cosmos/cosmos-sdk/types"
	authtypes "github.com/cosmos/cosmos-sdk/x/auth/types"
	mttypes "mods.irisnet.org/modules/mt/types"
	nfttypes "mods.irisnet.org/modules/nft/types"

	mttransfer "github.com/bianjieai/tibc-go/modules/tibc/apps/mt_transfer/types"
	nfttransfer "github.com/bianjieai/tibc-go/modules/tibc/apps/nft_transfer/types"

	"verifharness/world"
)

type timeDuration = time.Duration

var (
	NFTEscrow = authtypes.NewModuleAddress(nfttransfer.ModuleName).String()
	MTEscrow  = authtypes.NewModuleAddress(mttransfer.ModuleName).String()
)

// NFTInst is one NFT as stored on one chain.
type NFTInst struct {
	Chain, Class, ID, Owner, URI string
}

// MTBal is one multi-token balance.
type MTBal struct {
	Chain, Class, ID, Owner string
	Amt                     uint64
}

type MTSup struct {
	Chain, Class, ID string
	Supply           uint64
}

// TokenSnap is the token state of one chain.
type TokenSnap struct {
	NFTs     []NFTInst
	NFTDenom []string // all nft denom ids (also empty ones)
	MTBals   []MTBal
	MTSups   []MTSup
	MTDenom  []string
}

// SnapTokens reads the token state of chain c at its latest committed version.
func SnapTokens(c *world.Chain) TokenSnap {
	return SnapTokensAt(c, c.Height)
}

func SnapTokensAt(c *world.Chain, version int64) TokenSnap {
	ctx, err := c.CtxAt(version)
	if err != nil {
		panic(err)
	}
	var ts TokenSnap
	cols, err := c.App.NftKeeper.GetCollections(ctx)
	if err != nil {
		panic(err)
	}
	for _, col := range cols {
		ts.NFTDenom = append(ts.NFTDenom, col.Denom.Id)
		for _, n := range col.NFTs {
			ts.NFTs = append(ts.NFTs, NFTInst{Chain: c.Name, Class: col.Denom.Id, ID: n.Id, Owner: n.Owner, URI: n.URI})
		}
	}
	sort.Strings(ts.NFTDenom)
	sort.Slice(ts.NFTs, func(i, j int) bool {
		a, b := ts.NFTs[i], ts.NFTs[j]
		if a.Class != b.Class {
			return a.Class < b.Class
		}
		return a.ID < b.ID
	})
	gs := c.App.MtKeeper.ExportGenesisState(ctx)
	for _, col := range gs.Collections {
		ts.MTDenom = append(ts.MTDenom, col.Denom.Id)
		for _, m := range col.Mts {
			ts.MTSups = append(ts.MTSups, MTSup{Chain: c.Name, Class: col.Denom.Id, ID: m.Id, Supply: m.Supply})
		}
	}
	for _, o := range gs.Owners {
		for _, d := range o.Denoms {
			for _, b := range d.Balances {
				if b.Amount == 0 {
					continue
				}
				ts.MTBals = append(ts.MTBals, MTBal{Chain: c.Name, Class: d.DenomId, ID: b.MtId, Owner: o.Address, Amt: b.Amount})
			}
		}
	}
	sort.Strings(ts.MTDenom)
	sort.Slice(ts.MTSups, func(i, j int) bool {
		a, b := ts.MTSups[i], ts.MTSups[j]
		if a.Class != b.Class {
			return a.Class < b.Class
		}
		return a.ID < b.ID
	})
	sort.Slice(ts.MTBals, func(i, j int) bool {
		a, b := ts.MTBals[i], ts.MTBals[j]
		if a.Class != b.Class {
			return a.Class < b.Class
		}
		if a.ID != b.ID {
			return a.ID < b.ID
		}
		return a.Owner < b.Owner
	})
	return ts
}

func (t TokenSnap) String() string {
	var b strings.Builder
	for _, n := range t.NFTs {
		fmt.Fprintf(&b, "nft %s/%s@%s;", n.Class, n.ID, shortAddr(n.Owner))
	}
	for _, m := range t.MTBals {
		fmt.Fprintf(&b, "mt %s/%s@%s=%d;", shortClass(m.Class), shortClass(m.ID), shortAddr(m.Owner), m.Amt)
	}
	for _, m := range t.MTSups {
		fmt.Fprintf(&b, "sup %s/%s=%d;", shortClass(m.Class), shortClass(m.ID), m.Supply)
	}
	return b.String()
}

func shortClass(c string) string {
	if len(c) > 14 {
		return c[:10] + ".."
	}
	return c
}

// Equal compares two snapshots of the same chain.
func (t TokenSnap) Equal(o TokenSnap) bool {
	return t.String() == o.String() && strings.Join(t.NFTDenom, ",") == strings.Join(o.NFTDenom, ",") && strings.Join(t.MTDenom, ",") == strings.Join(o.MTDenom, ",")
}

// EqualHoldings ignores the sets of (possibly empty) denoms.
func (t TokenSnap) EqualHoldings(o TokenSnap) bool { return t.String() == o.String() }

// NFTClassPath resolves an nft class id on chain c to its full path (native classes map to themselves).
func NFTClassPath(c *world.Chain, class string) (string, bool) {
	if !strings.HasPrefix(class, "tibc-") {
		return class, true
	}
	p, err := c.App.NftTransferKeeper.ClassPathFromHash(c.Ctx(), class)
	if err != nil {
		return "", false
	}
	return p, true
}

func MTClassPath(c *world.Chain, class string) (string, bool) {
	if !strings.HasPrefix(class, "tibc-") {
		return class, true
	}
	p, err := c.App.MtTransferKeeper.ClassPathFromHash(c.Ctx(), class)
	if err != nil {
		return "", false
	}
	return p, true
}

// ---- NFT operations ---------------------------------------------------------------------------

// StrictClasses are class ids for which no known finding applies.
var StrictClasses = []string{"kitty", "doggo", "birdy"}
var TokenIDs = []string{"tok1", "tok2", "tok3"}

func (s *Sim) userNFTs(c *world.Chain) []NFTInst {
	var out []NFTInst
	for _, n := range SnapTokens(c).NFTs {
		if n.Owner != NFTEscrow {
			out = append(out, n)
		}
	}
	return out
}

func (s *Sim) accByAddr(c *world.Chain, addr string) *world.Account {
	for _, a := range c.Accounts {
		if a.Addr.String() == addr {
			return a
		}
	}
	return nil
}

// receiver kinds: 0..2 valid users, 3 invalid bech32, 4 blank, 5 escrow account itself
func (s *Sim) receiver(c *world.Chain, kind int) string {
	switch mod(kind, 8) {
	case 0, 1, 2:
		return c.Accounts[mod(kind, 3)].Addr.String()
	case 3:
		return "not-a-bech32-address"
	case 4:
		return "   "
	case 5:
		return c.Accounts[world.OutsiderIdx].Addr.String()
	case 6:
		return c.Accounts[1].Addr.String()
	default:
		return c.Accounts[2].Addr.String()
	}
}

func (s *Sim) opNFT(op Op) *Violation {
	c := s.chain(op.A)
	switch op.K {
	case "nftissue":
		user := c.Accounts[mod(op.B, world.NumUsers)]
		class := op.S
		if class == "" {
			class = StrictClasses[mod(op.C, len(StrictClasses))]
		}
		msg := nfttypes.NewMsgIssueDenom(class, class, "", user.Addr.String(), "", false, false, "", "", "", "")
		st := &Step{Op: op, Kind: "user", Class: class, Note: "nftissue", Sender: user.Addr.String()}
		s.deliver(st, c, user, msg)
		if st.OK {
			s.NFTClasses[c.Name] = append(s.NFTClasses[c.Name], class)
		}
		return s.record(st)
	case "nftforge":
		// a user issues a native class whose id reads like the class path of a voucher between real chains (the nft
		// module accepts [a-z][a-zA-Z0-9/]{2,100}) and mints a token with one of the usual ids into it.
		// C=shape, D=token id, U: chain choices and base class
		names := s.W.Order
		x := names[mod(int(op.U), len(names))]
		y := names[mod(int(op.U/4), len(names))]
		base := StrictClasses[mod(int(op.U/16), len(StrictClasses))]
		var class string
		switch mod(op.C, 9) {
		case 5:
			class = x + "/yy/" + base
		case 6:
			class = base + "/" + x
		case 7:
			class = x + "/" + y + "/" + base
		case 8:
			class = base + "/v2"
		case 0:
			class = "nft/" + x + "/" + c.Name + "/" + base
		case 1:
			class = "nft/" + x + "/" + y + "/" + base
		case 2:
			class = "nft/" + x + "/" + y + "/" + c.Name + "/" + base
		case 3:
			class = "nftq/" + x + "/" + c.Name + "/" + base
		default:
			class = "nft/" + x + "/" + c.Name + "/" + y + "/" + base
		}
		if !contains(s.NFTClasses[c.Name], class) {
			if v := s.opNFT(Op{K: "nftissue", A: op.A, B: op.B, S: class}); v != nil {
				return v
			}
		}
		for i, cl := range s.NFTClasses[c.Name] {
			if cl == class {
				s.Labels["path-shaped-native-class-minted"]++
				return s.opNFT(Op{K: "nftmint", A: op.A, B: op.B, C: i, D: op.D, U: uint64(mod(op.B, world.NumUsers))})
			}
		}
		return nil
	case "nftmint":
		cls := append([]string{}, s.NFTClasses[c.Name]...)
		// voucher classes present on the chain are candidates too: only the transfer module may mint into them
		for _, d := range SnapTokens(c).NFTDenom {
			if strings.HasPrefix(d, "tibc-") {
				cls = append(cls, d)
			}
		}
		if len(cls) == 0 {
			return nil
		}
		user := c.Accounts[mod(op.B, world.NumUsers)]
		class := cls[mod(op.C, len(cls))]
		id := op.S
		if id == "" {
			id = TokenIDs[mod(op.D, len(TokenIDs))]
		}
		rcpt := c.Accounts[mod(int(op.U), world.NumUsers)]
		msg := nfttypes.NewMsgMintNFT(id, class, "", fmt.Sprintf("uri://%s/%s", class, id), "", "", user.Addr.String(), rcpt.Addr.String())
		st := &Step{Op: op, Kind: "user", Class: class, ID: id, Note: "nftmint", Sender: user.Addr.String(), Receiver: rcpt.Addr.String()}
		s.deliver(st, c, user, msg)
		return s.record(st)
	case "nftxfer", "nftburn", "nftsend":
		toks := s.userNFTs(c)
		if len(toks) == 0 {
			return nil
		}
		tk := toks[mod(op.B, len(toks))]
		owner := s.accByAddr(c, tk.Owner)
		if owner == nil {
			return nil
		}
		switch op.K {
		case "nftxfer":
			rcpt := c.Accounts[mod(op.C, world.NumUsers)]
			msg := nfttypes.NewMsgTransferNFT(tk.ID, tk.Class, nfttypes.DoNotModify, nfttypes.DoNotModify, nfttypes.DoNotModify, nfttypes.DoNotModify, owner.Addr.String(), rcpt.Addr.String())
			st := &Step{Op: op, Kind: "user", Class: tk.Class, ID: tk.ID, Note: "nftxfer", Sender: owner.Addr.String(), Receiver: rcpt.Addr.String()}
			s.deliver(st, c, owner, msg)
			return s.record(st)
		case "nftburn":
			msg := nfttypes.NewMsgBurnNFT(owner.Addr.String(), tk.ID, tk.Class)
			st := &Step{Op: op, Kind: "user", Class: tk.Class, ID: tk.ID, Note: "nftburn", Sender: owner.Addr.String()}
			s.deliver(st, c, owner, msg)
			return s.record(st)
		default:
			return s.doNFTSend(op, c, owner, tk.Class, tk.ID)
		}
	}
	return nil
}

// doNFTSend: C=dst choice, D=relay choice, U: low 3 bits receiver kind, next 3 bits failure injection
// (1: sender is not the owner, 2: unknown class, 3: unknown id, 4: unknown destination, 5: unknown relay, 6: dest==self)
func (s *Sim) doNFTSend(op Op, c *world.Chain, owner *world.Account, class, id string) *Violation {
	dst := s.otherChain(c, op.C).Name
	relay := s.relayChoice(c.Name, dst, op.D)
	rcv := s.receiver(s.W.Chains[dst], int(op.U&7))
	sender := owner
	note := ""
	switch (op.U >> 3) & 7 {
	case 1:
		sender = c.Accounts[mod(int(owner.AccNum)+1, world.NumUsers)]
		note = "not-owner"
	case 2:
		class = "nosuchclass"
		note = "unknown-class"
	case 3:
		id = "nosuchid"
		note = "unknown-id"
	case 4:
		dst = unknownChain(dst, "chain-nowhere", int(op.U>>6))
		note = "unknown-dest"
	case 5:
		relay = unknownChain(dst, "chain-norelay", int(op.U>>6))
		note = "unknown-relay"
	case 6:
		dst = c.Name
		note = "dest-self"
	}
	msg := nfttransfer.NewMsgNftTransfer(class, id, sender.Addr.String(), rcv, dst, relay, "")
	st := &Step{Op: op, Kind: "nftsend", Src: c.Name, Dst: dst, Relay: relay, Sender: sender.Addr.String(), Class: class, ID: id,
		Receiver: rcv, Port: PortNFT, Note: note}
	s.deliver(st, c, sender, msg)
	if st.OK {
		if ps := world.PacketsFromEvents(st.Res.Events); len(ps) == 1 {
			st.Packet = &ps[0]
		}
	}
	return s.record(st)
}

// ---- MT operations ----------------------------------------------------------------------------

var MTAmounts = []uint64{1, 2, 3, 7, 1 << 32, 1<<63 - 1, 1 << 63, ^uint64(0) - 1, ^uint64(0)}

func (s *Sim) userMTs(c *world.Chain) []MTBal {
	var out []MTBal
	for _, b := range SnapTokens(c).MTBals {
		if b.Owner != MTEscrow {
			out = append(out, b)
		}
	}
	return out
}

func (s *Sim) opMT(op Op) *Violation {
	c := s.chain(op.A)
	switch op.K {
	case "mtissue":
		user := c.Accounts[mod(op.B, world.NumUsers)]
		before := SnapTokens(c).MTDenom
		msg := mttypes.NewMsgIssueDenom(fmt.Sprintf("denom%d", mod(op.C, 3)), "", user.Addr.String())
		st := &Step{Op: op, Kind: "user", Note: "mtissue", Sender: user.Addr.String()}
		s.deliver(st, c, user, msg)
		if st.OK {
			for _, d := range SnapTokens(c).MTDenom {
				if !contains(before, d) {
					s.MTClasses[c.Name] = append(s.MTClasses[c.Name], d)
					st.Class = d
				}
			}
		}
		return s.record(st)
	case "mtmint":
		// A=chain, B=class idx, C: 0 => new id, else existing id idx, D=amount idx, U recipient
		cls := append([]string{}, s.MTClasses[c.Name]...)
		for _, d := range SnapTokens(c).MTDenom {
			if strings.HasPrefix(d, "tibc-") {
				cls = append(cls, d)
			}
		}
		if len(cls) == 0 {
			return nil
		}
		class := cls[mod(op.B, len(cls))]
		ctx := c.Ctx()
		d, ok := c.App.MtKeeper.GetDenom(ctx, class)
		if !ok {
			return nil
		}
		owner := s.accByAddr(c, d.Owner)
		if owner == nil {
			// a voucher class (owned by the transfer module): a user tries
			owner = c.Accounts[mod(int(op.U/7), world.NumUsers)]
		}
		id := ""
		ids := s.MTIDs[c.Name+"/"+class]
		if mod(op.C, 3) != 0 && len(ids) > 0 {
			id = ids[mod(op.C, len(ids))]
		}
		amt := MTAmounts[mod(op.D, len(MTAmounts))]
		if op.D >= 100 {
			amt = op.U
		}
		rcpt := c.Accounts[mod(int(op.U), world.NumUsers)]
		before := SnapTokens(c)
		msg := mttypes.NewMsgMintMT(id, class, amt, "", owner.Addr.String(), rcpt.Addr.String())
		st := &Step{Op: op, Kind: "user", Note: "mtmint", Class: class, ID: id, Amount: amt, Sender: owner.Addr.String(), Receiver: rcpt.Addr.String()}
		s.deliver(st, c, owner, msg)
		if st.OK && id == "" {
			after := SnapTokens(c)
			for _, sp := range after.MTSups {
				found := false
				for _, b := range before.MTSups {
					if b.Class == sp.Class && b.ID == sp.ID {
						found = true
					}
				}
				if !found && sp.Class == class {
					s.MTIDs[c.Name+"/"+class] = append(s.MTIDs[c.Name+"/"+class], sp.ID)
					st.ID = sp.ID
				}
			}
		}
		return s.record(st)
	case "mtxfer", "mtburn", "mtsend":
		bals := s.userMTs(c)
		if len(bals) == 0 {
			return nil
		}
		b := bals[mod(op.B, len(bals))]
		owner := s.accByAddr(c, b.Owner)
		if owner == nil {
			return nil
		}
		amt := s.partialAmount(b.Amt, op)
		switch op.K {
		case "mtxfer":
			rcpt := c.Accounts[mod(op.C, world.NumUsers)]
			msg := mttypes.NewMsgTransferMT(b.ID, b.Class, owner.Addr.String(), rcpt.Addr.String(), amt)
			st := &Step{Op: op, Kind: "user", Note: "mtxfer", Class: b.Class, ID: b.ID, Amount: amt, Sender: owner.Addr.String(), Receiver: rcpt.Addr.String()}
			s.deliver(st, c, owner, msg)
			return s.record(st)
		case "mtburn":
			msg := mttypes.NewMsgBurnMT(owner.Addr.String(), b.ID, b.Class, amt)
			st := &Step{Op: op, Kind: "user", Note: "mtburn", Class: b.Class, ID: b.ID, Amount: amt, Sender: owner.Addr.String()}
			s.deliver(st, c, owner, msg)
			return s.record(st)
		default:
			return s.doMTSend(op, c, owner, b.Class, b.ID, amt)
		}
	}
	return nil
}

// partialAmount: S selects: "" => by U%6: all, half, 1, bal-1, bal+1 (too much), 0
func (s *Sim) partialAmount(bal uint64, op Op) uint64 {
	switch mod(int(op.U>>8), 7) {
	case 0:
		return bal
	case 1:
		if bal/2 > 0 {
			return bal / 2
		}
		return bal
	case 2:
		return 1
	case 3:
		if bal > 1 {
			return bal - 1
		}
		return bal
	case 4:
		if bal < ^uint64(0) {
			return bal + 1
		}
		return bal
	case 5:
		return 0
	default:
		if bal > 3 {
			return bal / 3
		}
		return bal
	}
}

func (s *Sim) doMTSend(op Op, c *world.Chain, owner *world.Account, class, id string, amt uint64) *Violation {
	dst := s.otherChain(c, op.C).Name
	relay := s.relayChoice(c.Name, dst, op.D)
	rcv := s.receiver(s.W.Chains[dst], int(op.U&7))
	sender := owner
	note := ""
	switch (op.U >> 3) & 7 {
	case 1:
		sender = c.Accounts[mod(int(owner.AccNum)+1, world.NumUsers)]
		note = "not-owner"
	case 2:
		class = "nosuchclass"
		note = "unknown-class"
	case 3:
		id = "nosuchid"
		note = "unknown-id"
	case 4:
		dst = unknownChain(dst, "chain-nowhere", int(op.U>>6))
		note = "unknown-dest"
	case 5:
		relay = unknownChain(dst, "chain-norelay", int(op.U>>6))
		note = "unknown-relay"
	case 6:
		dst = c.Name
		note = "dest-self"
	}
	msg := mttransfer.NewMsgMtTransfer(class, id, sender.Addr.String(), rcv, dst, relay, "", amt)
	st := &Step{Op: op, Kind: "mtsend", Src: c.Name, Dst: dst, Relay: relay, Sender: sender.Addr.String(), Class: class, ID: id,
		Amount: amt, Receiver: rcv, Port: PortMT, Note: note}
	s.deliver(st, c, sender, msg)
	if st.OK {
		if ps := world.PacketsFromEvents(st.Res.Events); len(ps) == 1 {
			st.Packet = &ps[0]
		}
	}
	return s.record(st)
}

func contains(xs []string, x string) bool {
	for _, y := range xs {
		if x == y {
			return true
		}
	}
	return false
}

var _ = sdk.AccAddress{}

// SendNFT submits MsgNftTransfer with explicit arguments.
func (s *Sim) SendNFT(c *world.Chain, owner *world.Account, class, id, receiver, dst, relay string) *Violation {
	msg := nfttransfer.NewMsgNftTransfer(class, id, owner.Addr.String(), receiver, dst, relay, "")
	st := &Step{Kind: "nftsend", Src: c.Name, Dst: dst, Relay: relay, Sender: owner.Addr.String(), Class: class, ID: id,
		Receiver: receiver, Port: PortNFT, Op: Op{K: "journey-send"}}
	s.deliver(st, c, owner, msg)
	if st.OK {
		if ps := world.PacketsFromEvents(st.Res.Events); len(ps) == 1 {
			st.Packet = &ps[0]
		}
	}
	return s.record(st)
}

// SendMT submits MsgMtTransfer with explicit arguments.
func (s *Sim) SendMT(c *world.Chain, owner *world.Account, class, id string, amt uint64, receiver, dst, relay string) *Violation {
	msg := mttransfer.NewMsgMtTransfer(class, id, owner.Addr.String(), receiver, dst, relay, "", amt)
	st := &Step{Kind: "mtsend", Src: c.Name, Dst: dst, Relay: relay, Sender: owner.Addr.String(), Class: class, ID: id,
		Amount: amt, Receiver: receiver, Port: PortMT, Op: Op{K: "journey-send"}}
	s.deliver(st, c, owner, msg)
	if st.OK {
		if ps := world.PacketsFromEvents(st.Res.Events); len(ps) == 1 {
			st.Packet = &ps[0]
		}
	}
	return s.record(st)
}

// opNFTRaid is an adversarial heuristic: send a voucher held on chain A to a chain whose escrow
// currently holds a *native* NFT with the same base class name and token id, preferring the
// voucher's previous hop as relay chain (B selects among the candidates).
func (s *Sim) opNFTRaid(op Op) *Violation {
	c := s.chain(op.A)
	type cand struct {
		tk         NFTInst
		dst, relay string
	}
	var cands []cand
	for _, tk := range s.userNFTs(c) {
		path, ok := NFTClassPath(c, tk.Class)
		if !ok {
			continue
		}
		parts := strings.Split(path, "/")
		if len(parts) < 4 || parts[0] != "nft" {
			continue
		}
		base := parts[len(parts)-1]
		prev := parts[len(parts)-3]
		for _, dn := range s.W.Order {
			if dn == c.Name {
				continue
			}
			for _, e := range SnapTokens(s.W.Chains[dn]).NFTs {
				if e.Owner == NFTEscrow && e.Class == base && e.ID == tk.ID {
					relay := ""
					if prev != c.Name && prev != dn {
						relay = prev
					}
					cands = append(cands, cand{tk, dn, relay})
				}
			}
		}
	}
	if len(cands) == 0 {
		return nil
	}
	cd := cands[mod(op.B, len(cands))]
	owner := s.accByAddr(c, cd.tk.Owner)
	if owner == nil {
		return nil
	}
	s.Label("nft-raid-attempt")
	rcv := s.W.Chains[cd.dst].Accounts[mod(op.C, world.NumUsers)].Addr.String()
	return s.SendNFT(c, owner, cd.tk.Class, cd.tk.ID, rcv, cd.dst, cd.relay)
}
