package sim

import (
	"bytes"
	"fmt"
	"strings"

	packettypes "github.com/bianjieai/tibc-go/modules/tibc/core/04-packet/types"

	"verifharness/world"
)

// ---- C13: port / relay-chain alterations ------------------------------------------------------------

var C13Alters = []string{"port-registered", "port-unregistered", "relay-removed", "relay-added", "relay-replaced"}

func isC13Alter(a string) bool {
	for _, x := range C13Alters {
		if a == x {
			return true
		}
	}
	return false
}

// alteredPacket applies a C13 alteration; ok=false when it does not apply to this packet/topology.
func (s *Sim) alteredPacket(p packettypes.Packet, alter string, aux int) (packettypes.Packet, bool) {
	mp := p
	switch alter {
	case "port-registered":
		ports := []string{PortNFT, PortMT, PortMock}
		var others []string
		for _, x := range ports {
			if x != p.Port {
				others = append(others, x)
			}
		}
		mp.Port = others[mod(aux, len(others))]
	case "port-unregistered":
		mp.Port = []string{"noport", "nft", "NFTx", "transfer"}[mod(aux, 4)]
	case "relay-removed":
		if p.RelayChain == "" {
			return mp, false
		}
		mp.RelayChain = ""
	case "relay-added":
		if p.RelayChain != "" {
			return mp, false
		}
		r := s.relayChoice(p.SourceChain, p.DestinationChain, 1+mod(aux, 3))
		if r == "" {
			return mp, false
		}
		mp.RelayChain = r
	case "relay-replaced":
		if p.RelayChain == "" {
			return mp, false
		}
		var cands []string
		for _, n := range s.W.Order {
			if n != p.SourceChain && n != p.DestinationChain && n != p.RelayChain {
				cands = append(cands, n)
			}
		}
		if len(cands) == 0 {
			return mp, false
		}
		mp.RelayChain = cands[mod(aux, len(cands))]
	default:
		return mp, false
	}
	return mp, true
}

// opAlterX: A=packet, B=alteration, C: even => receive, odd => acknowledgement, D=target/aux.
// The altered message is given the proof it needs: the genuine commitment/ack proof from the chain
// the altered message says it must be proven from.
func (s *Sim) opAlterX(op Op) *Violation {
	if len(s.Packets) == 0 {
		return nil
	}
	r := s.Packets[mod(op.A, len(s.Packets))]
	alter := C13Alters[mod(op.B, len(C13Alters))]
	mp, ok := s.alteredPacket(r.P, alter, int(op.U))
	if !ok {
		return nil
	}
	if mod(op.C, 2) == 0 {
		var targets []string
		for _, t := range []string{mp.RelayChain, mp.DestinationChain} {
			if _, ok := s.W.Chains[t]; ok && t != mp.SourceChain {
				targets = append(targets, t)
			}
		}
		if len(targets) == 0 {
			return nil
		}
		on := s.W.Chains[targets[mod(op.D, len(targets))]]
		prover := world.RecvProver(on.Name, mp)
		if _, ok := s.W.Chains[prover]; !ok || prover == on.Name {
			return nil
		}
		ph, ok := s.proofHeightFor(on.Name, prover, 0)
		if !ok {
			return nil
		}
		signer := on.Accounts[world.RelayerIdx]
		msg, err := s.W.RecvMsg(on.Name, prover, mp, ph, signer.Addr)
		if err != nil {
			return nil
		}
		st := &Step{Op: op, Kind: "recv", Alter: alter, Packet: &msg.Packet, ProofHeight: ph, ProofFrom: prover}
		s.deliver(st, on, signer, msg)
		s.sent = append(s.sent, sentMsg{on.Name, msg, st})
		return s.record(st)
	}
	var targets []string
	for _, t := range []string{mp.RelayChain, mp.SourceChain} {
		if _, ok := s.W.Chains[t]; ok && t != mp.DestinationChain {
			targets = append(targets, t)
		}
	}
	if len(targets) == 0 {
		return nil
	}
	on := s.W.Chains[targets[mod(op.D, len(targets))]]
	prover := world.AckProver(on.Name, mp)
	if _, ok := s.W.Chains[prover]; !ok || prover == on.Name {
		return nil
	}
	ack, known := r.Acks[prover]
	if !known {
		for _, n := range s.W.Order {
			if a, ok := r.Acks[n]; ok {
				ack = a
				known = true
				break
			}
		}
	}
	if !known {
		return nil
	}
	ph, ok := s.proofHeightFor(on.Name, prover, 0)
	if !ok {
		return nil
	}
	signer := on.Accounts[world.RelayerIdx]
	msg, err := s.W.AckMsg(on.Name, prover, mp, ack, ph, signer.Addr)
	if err != nil {
		return nil
	}
	st := &Step{Op: op, Kind: "ack", Alter: alter, Packet: &msg.Packet, Ack: msg.Acknowledgement, ProofHeight: ph, ProofFrom: prover}
	s.deliver(st, on, signer, msg)
	s.sent = append(s.sent, sentMsg{on.Name, msg, st})
	return s.record(st)
}

// CheckC13: a message presenting a committed packet with a different port or relay chain must be rejected.
func CheckC13(s *Sim, st *Step) *Violation {
	if (st.Kind != "recv" && st.Kind != "ack") || st.Packet == nil || !isC13Alter(st.Alter) {
		return nil
	}
	p := st.Packet
	orig := s.findPacket(p.SourceChain, p.DestinationChain, p.Sequence)
	if orig == nil {
		return nil
	}
	if orig.P.Port == p.Port && orig.P.RelayChain == p.RelayChain {
		return nil
	}
	role := "dest"
	switch st.Chain {
	case p.RelayChain:
		role = "relay-hop"
	case p.SourceChain:
		role = "source"
	}
	s.Label("c13:" + st.Kind + "/" + st.Alter + "@" + role)
	if st.OK {
		return &Violation{"C13", st.Kind + "/" + st.Alter, fmt.Sprintf("message presenting %s with port %q relay %q (sender chose port %q relay %q) was accepted on %s: %s",
			orig.Key(), p.Port, p.RelayChain, orig.P.Port, orig.P.RelayChain, role, st.Describe())}
	}
	return nil
}

// ---- C11: relay chains forward faithfully ----------------------------------------------------------

// literalAllow is the whitelist rule read literally.
func literalAllow(rules []string, src, dst, port string) bool {
	for _, r := range rules {
		fs := strings.Split(r, ",")
		if len(fs) != 3 {
			continue
		}
		if (fs[0] == "*" || fs[0] == src) && (fs[1] == "*" || fs[1] == dst) && (fs[2] == "*" || fs[2] == port) {
			return true
		}
	}
	return false
}

type C11State struct {
	Denied map[string]bool // packet key -> denied on its relay chain
}

func NewC11State() *C11State { return &C11State{Denied: map[string]bool{}} }

var appStores = []string{"nft", "mt", "NFT"}

func CheckC11(state *C11State) func(*Sim, *Step) *Violation {
	return func(s *Sim, st *Step) *Violation {
		if (st.Kind != "recv" && st.Kind != "ack") || st.Packet == nil || st.Alter != "" {
			return nil
		}
		p := st.Packet
		orig := s.findPacket(p.SourceChain, p.DestinationChain, p.Sequence)
		if orig == nil || orig.P.RelayChain != p.RelayChain || orig.P.Port != p.Port || !bytes.Equal(orig.P.Data, p.Data) {
			return nil
		}
		c := s.W.Chains[st.Chain]
		key := orig.Key()
		if st.Chain == p.RelayChain {
			// relay role: application stores never change
			if st.HAfter > st.HBefore {
				for _, store := range appStores {
					if d := DiffStore(c, store, st.HBefore, st.HBefore+1); len(d) != 0 {
						return &Violation{"C11", "relay-ran-app-logic/" + st.Kind, fmt.Sprintf("relay chain changed store %s while relaying: %s; %s", store, fmtDiff(d), st.Describe())}
					}
				}
			}
		}
		if st.Kind == "recv" && st.Chain == p.RelayChain {
			ctx, err := c.CtxAt(st.HBefore)
			if err != nil {
				return nil
			}
			rules, _ := c.App.TIBCKeeper.RoutingKeeper.GetRoutingRules(ctx)
			if inForce, ok := s.RulesInForce(st.Chain); ok {
				// the list the harness itself last saw accepted, not what the chain says it stores
				rules = inForce
			}
			allowed := literalAllow(rules, p.SourceChain, p.DestinationChain, p.Port)
			_, knowsDest := c.App.TIBCKeeper.ClientKeeper.GetClientState(ctx, p.DestinationChain)
			truth := s.RecvTruth(st)
			fresh := len(s.ReceiptAt(st.Chain, p.SourceChain, p.DestinationChain, p.Sequence, st.HBefore)) == 0 &&
				s.CleanAt(st.Chain, p.SourceChain, p.DestinationChain, st.HBefore) < p.Sequence
			if !truth || !fresh {
				return nil
			}
			after := s.CommitmentAt(st.Chain, p.SourceChain, p.DestinationChain, p.Sequence, st.HAfter)
			acks := world.AcksFromEvents(eventsOf(st))
			switch {
			case allowed && knowsDest:
				s.Label("relay-forwarded")
				if !st.OK {
					return &Violation{"C11", "relay-refused-allowed-packet", "relay chain refused a packet its rules allow: " + st.Describe()}
				}
				if !bytes.Equal(after, Sha(p.Data)) {
					return &Violation{"C11", "relay-recommit-differs", fmt.Sprintf("relay chain re-committed %x, source committed %x: %s", after, Sha(p.Data), st.Describe())}
				}
				fw := world.PacketsFromEvents(st.Res.Events)
				if len(fw) != 1 || fw[0].Sequence != p.Sequence || fw[0].Port != p.Port || fw[0].RelayChain != p.RelayChain ||
					fw[0].SourceChain != p.SourceChain || fw[0].DestinationChain != p.DestinationChain || !bytes.Equal(fw[0].Data, p.Data) {
					return &Violation{"C11", "relay-announce-differs", fmt.Sprintf("relay chain announced %+v for %+v", fw, *p)}
				}
				if len(acks) != 0 {
					return &Violation{"C11", "relay-acked-forwarded-packet", "relay chain wrote an ack for a packet it forwarded: " + st.Describe()}
				}
			case !allowed:
				s.Label("relay-denied")
				state.Denied[key] = true
				if !st.OK {
					return &Violation{"C11", "relay-denied-without-error-ack", "relay chain rejected a disallowed packet instead of recording an error acknowledgement: " + st.Describe()}
				}
				if len(after) != 0 {
					return &Violation{"C11", "relay-forwarded-disallowed", "relay chain re-committed a packet its rules do not allow: " + st.Describe()}
				}
				if len(acks) != 1 {
					return &Violation{"C11", "relay-denied-without-error-ack", "no error acknowledgement recorded for a disallowed packet: " + st.Describe()}
				}
				if isErr, ok := ackIsError(acks[0].Ack); !ok || !isErr {
					return &Violation{"C11", "relay-denied-without-error-ack", "acknowledgement recorded for a disallowed packet is not an error ack: " + st.Describe()}
				}
			default: // allowed but destination unknown
				s.Label("relay-dest-unknown")
				state.Denied[key] = true
				if !st.OK {
					return &Violation{"C11", "relay-dest-unknown-rejected", "relay chain does not know the destination and rejected the packet instead of recording an error acknowledgement: " + st.Describe()}
				}
				if len(after) != 0 {
					return &Violation{"C11", "relay-forwarded-to-unknown-dest", "relay chain re-committed a packet for a destination it does not know: " + st.Describe()}
				}
				if len(acks) != 1 {
					return &Violation{"C11", "relay-dest-unknown-rejected", "no error acknowledgement recorded: " + st.Describe()}
				}
			}
		}
		if st.Kind == "recv" && st.Chain == p.DestinationChain && p.RelayChain != "" && st.OK && state.Denied[key] {
			return &Violation{"C11", "destination-saw-denied-packet", "destination accepted a packet its relay chain refused: " + st.Describe()}
		}
		if st.Kind == "ack" && st.Chain == p.RelayChain {
			// acks pass back unchanged
			if !s.AckTruth(st) || len(s.CommitmentAt(st.Chain, p.SourceChain, p.DestinationChain, p.Sequence, st.HBefore)) == 0 {
				return nil
			}
			ctx, err := c.CtxAt(st.HBefore)
			if err != nil {
				return nil
			}
			if _, knowsSrc := c.App.TIBCKeeper.ClientKeeper.GetClientState(ctx, p.SourceChain); !knowsSrc {
				return nil
			}
			isErr, _ := ackIsError(st.Ack)
			if isErr {
				s.Label("error-ack-through-relay")
			} else {
				s.Label("success-ack-through-relay")
			}
			if !st.OK {
				return &Violation{"C11", "relay-refused-ack", "relay chain refused a genuine acknowledgement passing back: " + st.Describe()}
			}
			got := s.AckAt(st.Chain, p.SourceChain, p.DestinationChain, p.Sequence, st.HAfter)
			if !bytes.Equal(got, Sha(st.Ack)) {
				return &Violation{"C11", "relay-ack-differs", fmt.Sprintf("relay chain stored ack hash %x, destination's is %x: %s", got, Sha(st.Ack), st.Describe())}
			}
		}
		if st.Kind == "ack" && st.Chain == p.SourceChain && p.RelayChain != "" && st.OK {
			if isErr, ok := ackIsError(st.Ack); ok && isErr {
				s.Label("error-ack-reached-source-via-relay")
				if state.Denied[key] {
					s.Label("denied-packet-error-ack-reached-source")
				}
			}
		}
		return nil
	}
}

func eventsOf(st *Step) []abciEvent {
	if st.Res == nil {
		return nil
	}
	return st.Res.Events
}
