// Package sim interprets abstract operation lists over a world and records what happened.
// Operation arguments are plain integers that the interpreter resolves modulo the current
// state (packet #k mod number of known packets ...), so an operation list is a self-contained,
// shrinkable, replayable value.
package sim

import (
	"bytes"
	"crypto/sha256"
	"encoding/json"
	"fmt"
	commitmenttypes "github.com/bianjieai/tibc-go/modules/tibc/core/23-commitment/types"
	ics23 "github.com/cosmos/ics23/go"
	"sort"
	"strings"

	abci "github.com/cometbft/cometbft/abci/types"
	sdk "github.com/cosmos/cosmos-sdk/types"
	mttypes "mods.irisnet.org/modules/mt/types"
	nfttypes "mods.irisnet.org/modules/nft/types"

	mttransfer "github.com/bianjieai/tibc-go/modules/tibc/apps/mt_transfer/types"
	nfttransfer "github.com/bianjieai/tibc-go/modules/tibc/apps/nft_transfer/types"
	clienttypes "github.com/bianjieai/tibc-go/modules/tibc/core/02-client/types"
	packettypes "github.com/bianjieai/tibc-go/modules/tibc/core/04-packet/types"
	host "github.com/bianjieai/tibc-go/modules/tibc/core/24-host"
	routingtypes "github.com/bianjieai/tibc-go/modules/tibc/core/26-routing/types"

	"verifharness/lcgen"
	"verifharness/world"
)

const (
	PortMock = "tibcmock"
	PortNFT  = "NFT"
	PortMT   = "MT"
)

// Op is one abstract operation. K selects the kind, A..D are small integers resolved modulo the
// current state, U is a raw 64-bit value, S a raw string.
type Op struct {
	K string `json:"k"`
	A int    `json:"a,omitempty"`
	B int    `json:"b,omitempty"`
	C int    `json:"c,omitempty"`
	D int    `json:"d,omitempty"`
	U uint64 `json:"u,omitempty"`
	S string `json:"s,omitempty"`
}

func (o Op) String() string {
	bz, _ := json.Marshal(o)
	return string(bz)
}

// PacketRec is what a relayer knows about one announced packet.
type PacketRec struct {
	P packettypes.Packet
	// Origin is "app" for packets produced by NFT/MT transfers or the mock app, "hostile" for
	// packets committed through the keeper with attacker-chosen data on an application port.
	Origin string
	// Acks announced by write_acknowledgement events, per chain.
	Acks map[string][]byte
	// SentAt is the source-chain height of the block that committed it.
	SentAt int64
}

func (p *PacketRec) Key() string {
	return fmt.Sprintf("%s/%s/%d", p.P.SourceChain, p.P.DestinationChain, p.P.Sequence)
}

// Step records one executed operation that touched a chain.
type Step struct {
	Idx     int
	Op      Op
	Kind    string // recv, ack, clean, recvclean, nftsend, mtsend, mocksend, update, user, gov, keeper
	Chain   string
	Signer  string
	Res     *abci.ExecTxResult
	OK      bool
	HBefore int64
	HAfter  int64
	Time    int64 // unix nanos of the block that ran the tx

	Packet      *packettypes.Packet
	Ack         []byte
	Clean       *packettypes.CleanPacket
	ProofHeight int64
	ProofFrom   string // chain the proof bytes were queried from ("" when mutated/garbage)
	Alter       string // "" = genuine
	Replay      bool   // verbatim re-submission of an earlier message
	Msg         sdk.Msg
	Note        string
	// Batch lists the packets of the receive messages bundled into one transaction (kind "batch").
	Batch []packettypes.Packet

	// sends
	Src, Dst, Relay string
	Sender          string
	Class, ID       string
	Amount          uint64
	Receiver        string
	Port            string
}

func (s *Step) Describe() string {
	var b strings.Builder
	fmt.Fprintf(&b, "#%d %s@%s", s.Idx, s.Kind, short(s.Chain))
	if s.Packet != nil {
		fmt.Fprintf(&b, " pkt=%s>%s#%d", short(s.Packet.SourceChain), short(s.Packet.DestinationChain), s.Packet.Sequence)
		if s.Packet.RelayChain != "" {
			fmt.Fprintf(&b, " via=%s", short(s.Packet.RelayChain))
		}
		fmt.Fprintf(&b, " port=%s", s.Packet.Port)
	}
	if s.Clean != nil {
		fmt.Fprintf(&b, " clean=%s>%s N=%d via=%s", short(s.Clean.SourceChain), short(s.Clean.DestinationChain), s.Clean.Sequence, short(s.Clean.RelayChain))
	}
	if s.Kind == "nftsend" || s.Kind == "mtsend" || s.Kind == "mocksend" {
		fmt.Fprintf(&b, " %s>%s via=%s class=%s id=%s amt=%d rcv=%s", short(s.Src), short(s.Dst), short(s.Relay), s.Class, s.ID, s.Amount, shortAddr(s.Receiver))
	}
	if s.ProofHeight != 0 {
		fmt.Fprintf(&b, " ph=%d from=%s", s.ProofHeight, short(s.ProofFrom))
	}
	if s.Alter != "" {
		fmt.Fprintf(&b, " ALTER=%s", s.Alter)
	}
	if s.Replay {
		b.WriteString(" REPLAY")
	}
	if s.Note != "" {
		fmt.Fprintf(&b, " (%s)", s.Note)
	}
	if s.OK {
		b.WriteString(" -> ok")
	} else {
		code := uint32(0)
		log := ""
		if s.Res != nil {
			code = s.Res.Code
			log = s.Res.Log
		}
		if len(log) > 90 {
			log = log[:90]
		}
		fmt.Fprintf(&b, " -> REJECT(%d %s)", code, log)
	}
	return b.String()
}

// unknownChain returns a chain name nobody has a client for: a fixed one, a proper prefix of a real chain's name, or
// a real name with a character appended (lookups by prefix instead of by exact name would take them for known).
func unknownChain(realName, fixed string, sel int) string {
	switch mod(sel, 3) {
	case 1:
		return realName[:len(realName)-1]
	case 2:
		return realName + "x"
	}
	return fixed
}

func short(c string) string {
	return strings.TrimPrefix(c, "chain")
}

func shortAddr(a string) string {
	if len(a) > 12 {
		return a[:6] + ".." + a[len(a)-4:]
	}
	return a
}

// Violation is a failed invariant.
type Violation struct {
	Property string `json:"property"`
	Sig      string `json:"sig"` // short signature: which clause failed, in which shape
	Msg      string `json:"msg"`
}

func (v *Violation) Error() string { return fmt.Sprintf("%s [%s]: %s", v.Property, v.Sig, v.Msg) }

// Sim runs operations.
type Sim struct {
	W       *world.World
	Packets []*PacketRec
	Steps   []*Step
	Trace   []string
	Labels  map[string]int
	// relay messages in submission order (for verbatim replays)
	sent []sentMsg
	// Checkers run after every step; first violation aborts.
	Checkers []func(*Sim, *Step) *Violation
	Viol     *Violation
	// tokens
	NFTClasses map[string][]string // chain -> native class ids issued by the harness
	MTClasses  map[string][]string // chain -> native denom ids
	MTIDs      map[string][]string // chain/denom -> mt ids
	// AllowSlashClasses etc. are set by properties that probe known findings.
	ClassAlphabet int
	// Known: "property:signature" entries of recorded findings; a violation matching one is counted in
	// KnownSeen and the search continues behind it.
	Known        map[string]bool
	KnownSeen    map[string]int
	KnownExample map[string]string
	Tainted      bool
	// ForceNoRelay makes every send use a direct route (metamorphic twin of a relayed scenario).
	ForceNoRelay bool
	RulesSet     map[string][]string // chain -> last accepted rule list (set by the rules op)
}

type abciEvent = abci.Event

// RulesInForce returns the rule list the harness last saw accepted on the chain (ok=false: none set through
// the harness yet, the genesis list is in force).
func (s *Sim) RulesInForce(chain string) ([]string, bool) {
	r, ok := s.RulesSet[chain]
	return r, ok
}

type sentMsg struct {
	Chain string
	Msg   sdk.Msg
	Step  *Step
}

func New(w *world.World) *Sim {
	return &Sim{W: w, Labels: map[string]int{}, NFTClasses: map[string][]string{}, MTClasses: map[string][]string{}, MTIDs: map[string][]string{}}
}

func (s *Sim) Label(l string) { s.Labels[l]++ }

func (s *Sim) chain(i int) *world.Chain {
	n := len(s.W.Order)
	return s.W.Chains[s.W.Order[mod(i, n)]]
}

func mod(i, n int) int {
	if n <= 0 {
		return 0
	}
	i %= n
	if i < 0 {
		i += n
	}
	return i
}

// otherChain picks a chain different from c.
func (s *Sim) otherChain(c *world.Chain, i int) *world.Chain {
	if c == nil {
		return s.chain(i)
	}
	var others []string
	for _, n := range s.W.Order {
		if n != c.Name {
			others = append(others, n)
		}
	}
	return s.W.Chains[others[mod(i, len(others))]]
}

// relayChoice: 0 => none; otherwise a chain different from src and dst (if one exists).
func (s *Sim) relayChoice(src, dst string, i int) string {
	if i <= 0 || s.ForceNoRelay {
		return ""
	}
	var cands []string
	for _, n := range s.W.Order {
		if n != src && n != dst {
			cands = append(cands, n)
		}
	}
	if len(cands) == 0 {
		return ""
	}
	return cands[mod(i-1, len(cands))]
}

func (s *Sim) record(st *Step) *Violation {
	st.Idx = len(s.Steps)
	s.Steps = append(s.Steps, st)
	s.Trace = append(s.Trace, st.Describe())
	for _, ck := range s.Checkers {
		if v := ck(s, st); v != nil {
			if s.Known[v.Property+":"+v.Sig] {
				if s.KnownSeen == nil {
					s.KnownSeen = map[string]int{}
					s.KnownExample = map[string]string{}
				}
				s.KnownSeen[v.Sig]++
				if _, ok := s.KnownExample[v.Sig]; !ok {
					s.KnownExample[v.Sig] = v.Msg
				}
				continue
			}
			s.Viol = v
			return v
		}
	}
	return nil
}

// deliver runs msg on chain c signed by acc and fills the generic step fields.
func (s *Sim) deliver(st *Step, c *world.Chain, acc *world.Account, msg sdk.Msg) {
	st.Chain = c.Name
	st.Signer = acc.Addr.String()
	st.HBefore = c.Height
	st.Msg = msg
	st.Res = c.Deliver(acc, msg)
	st.HAfter = c.Height
	st.OK = st.Res.Code == 0
	st.Time = c.BlockTime(c.Height).UnixNano()
	if st.OK {
		s.absorbEvents(c, st.Res.Events)
	}
}

// absorbEvents updates the relayer's knowledge from a successful tx.
func (s *Sim) absorbEvents(c *world.Chain, evs []abci.Event) {
	for _, p := range world.PacketsFromEvents(evs) {
		if p.SourceChain == c.Name {
			s.addPacket(p, c.Height, "app")
		}
	}
	for _, wa := range world.AcksFromEvents(evs) {
		if r := s.findPacket(wa.Packet.SourceChain, wa.Packet.DestinationChain, wa.Packet.Sequence); r != nil {
			if _, dup := r.Acks[c.Name]; !dup {
				r.Acks[c.Name] = wa.Ack
			}
		}
	}
}

func (s *Sim) addPacket(p packettypes.Packet, at int64, origin string) *PacketRec {
	if r := s.findPacket(p.SourceChain, p.DestinationChain, p.Sequence); r != nil {
		return r
	}
	r := &PacketRec{P: p, Origin: origin, Acks: map[string][]byte{}, SentAt: at}
	s.Packets = append(s.Packets, r)
	return r
}

func (s *Sim) findPacket(src, dst string, seq uint64) *PacketRec {
	for _, r := range s.Packets {
		if r.P.SourceChain == src && r.P.DestinationChain == dst && r.P.Sequence == seq {
			return r
		}
	}
	return nil
}

// ---- ground truth readers -------------------------------------------------------------------

func (s *Sim) CommitmentAt(chain string, src, dst string, seq uint64, version int64) []byte {
	c, ok := s.W.Chains[chain]
	if !ok {
		return nil
	}
	return c.StoreGetAt(host.StoreKey, host.PacketCommitmentKey(src, dst, seq), version)
}

func (s *Sim) AckAt(chain string, src, dst string, seq uint64, version int64) []byte {
	c, ok := s.W.Chains[chain]
	if !ok {
		return nil
	}
	return c.StoreGetAt(host.StoreKey, host.PacketAcknowledgementKey(src, dst, seq), version)
}

func (s *Sim) ReceiptAt(chain string, src, dst string, seq uint64, version int64) []byte {
	c, ok := s.W.Chains[chain]
	if !ok {
		return nil
	}
	return c.StoreGetAt(host.StoreKey, host.PacketReceiptKey(src, dst, seq), version)
}

func (s *Sim) CleanAt(chain string, src, dst string, version int64) uint64 {
	c, ok := s.W.Chains[chain]
	if !ok {
		return 0
	}
	bz := c.StoreGetAt(host.StoreKey, host.CleanPacketCommitmentKey(src, dst), version)
	if len(bz) != 8 {
		return 0
	}
	return sdk.BigEndianToUint64(bz)
}

func Sha(b []byte) []byte {
	h := sha256.Sum256(b)
	return h[:]
}

// ---- operation interpreter ------------------------------------------------------------------

// Apply executes one op. Unknown or currently meaningless ops are skipped silently.
func (s *Sim) Apply(op Op) *Violation {
	if s.Viol != nil || s.Tainted {
		return s.Viol
	}
	switch op.K {
	case "mocksend":
		return s.opMockSend(op)
	case "update":
		return s.opUpdate(op)
	case "commit":
		c := s.chain(op.A)
		n := 1 + mod(op.B, 3)
		if op.U > 0 && op.U <= 80 {
			n = int(op.U)
		}
		c.CommitEmpty(n)
		return nil
	case "time":
		// advance the clock (seconds)
		s.W.Advance(sdkDuration(op.U))
		return nil
	case "recv":
		return s.opRecv(op)
	case "ack":
		return s.opAck(op)
	case "clean":
		return s.opClean(op)
	case "recvclean":
		return s.opRecvClean(op)
	case "replay":
		return s.opReplay(op)
	case "cleanraid":
		return s.opCleanRaid(op)
	case "nftissue", "nftmint", "nftxfer", "nftburn", "nftsend", "nftforge":
		return s.opNFT(op)
	case "mtissue", "mtmint", "mtxfer", "mtburn", "mtsend":
		return s.opMT(op)
	case "rules":
		return s.opRules(op)
	case "rulesdiscard":
		return s.opRulesDiscard(op)
	case "restart":
		// the node restarts: a fresh application object over the same committed database
		s.chain(op.A).Restart()
		s.Labels["restart"]++
		return nil
	case "flow":
		return s.opFlow(op)
	case "hostile":
		return s.opHostile(op)
	case "alterx":
		return s.opAlterX(op)
	case "burst":
		return s.opBurst(op)
	case "nftraid":
		return s.opNFTRaid(op)
	case "batch":
		return s.opBatch(op)
	case "slashheight":
		// record, on chain A, a consensus state of chain B at height 47 (0x2f, the byte of '/')
		on := s.chain(op.A)
		of := s.otherChain(on, op.B)
		if !s.W.Links[on.Name][of.Name] || of.Height >= 47 {
			return nil
		}
		of.CommitEmpty(int(46 - of.Height))
		return s.opUpdate(Op{K: "update", A: op.A, B: op.B})
	case "round":
		return s.opRound(op)
	case "cleanflow":
		return s.opCleanFlow(op)
	case "stale":
		return s.opStale(op)
	case "kwack":
		if v := s.KeeperWriteAck(op); v != nil {
			s.Viol = v
			return v
		}
		return nil
	}
	return nil
}

// opFlow drives one pending packet one genuine hop further (recv or ack), whichever is possible.
// It is a convenience so that random histories make progress.
func (s *Sim) opFlow(op Op) *Violation {
	if len(s.Packets) == 0 {
		return nil
	}
	// collect possible genuine moves
	type move struct {
		kind string
		pkt  int
		on   string
	}
	var moves []move
	for i, r := range s.Packets {
		for _, on := range s.W.Order {
			if s.canRecv(r, on) {
				moves = append(moves, move{"recv", i, on})
			}
			if s.canAck(r, on) {
				moves = append(moves, move{"ack", i, on})
			}
		}
	}
	if len(moves) == 0 {
		return nil
	}
	m := moves[mod(op.A, len(moves))]
	if m.kind == "recv" {
		return s.doRecv(op, s.Packets[m.pkt], s.W.Chains[m.on], "", 0, 0)
	}
	return s.doAck(op, s.Packets[m.pkt], s.W.Chains[m.on], "", 0, 0)
}

// canRecv: a genuine receive of r on `on` would be meaningful now (commitment at the prover, no
// receipt on `on`, not cleaned).
func (s *Sim) canRecv(r *PacketRec, on string) bool {
	p := r.P
	if _, ok := s.W.Chains[on]; !ok {
		return false
	}
	if on != p.DestinationChain && on != p.RelayChain {
		return false
	}
	if on == p.SourceChain {
		return false
	}
	prover := world.RecvProver(on, p)
	pc, ok := s.W.Chains[prover]
	if !ok {
		return false
	}
	if len(s.CommitmentAt(prover, p.SourceChain, p.DestinationChain, p.Sequence, pc.Height)) == 0 {
		return false
	}
	oc := s.W.Chains[on]
	if len(s.ReceiptAt(on, p.SourceChain, p.DestinationChain, p.Sequence, oc.Height)) != 0 {
		return false
	}
	if s.CleanAt(on, p.SourceChain, p.DestinationChain, oc.Height) >= p.Sequence {
		return false
	}
	return true
}

func (s *Sim) canAck(r *PacketRec, on string) bool {
	p := r.P
	if _, ok := s.W.Chains[on]; !ok {
		return false
	}
	if on != p.SourceChain && on != p.RelayChain {
		return false
	}
	if on == p.DestinationChain {
		return false
	}
	prover := world.AckProver(on, p)
	pc, ok := s.W.Chains[prover]
	if !ok {
		return false
	}
	if _, known := r.Acks[prover]; !known {
		return false
	}
	if len(s.AckAt(prover, p.SourceChain, p.DestinationChain, p.Sequence, pc.Height)) == 0 {
		return false
	}
	oc := s.W.Chains[on]
	if len(s.CommitmentAt(on, p.SourceChain, p.DestinationChain, p.Sequence, oc.Height)) == 0 {
		return false
	}
	return true
}

func sdkDuration(sec uint64) (d timeDuration) {
	if sec > 400*24*3600 {
		sec = 400 * 24 * 3600
	}
	return timeDuration(sec) * 1_000_000_000
}

// MockData builds mock packet data variants.
func mockData(kind int, seq uint64) []byte {
	switch mod(kind, 5) {
	case 0:
		return []byte(fmt.Sprintf("mock-%d", seq))
	case 1:
		return []byte{0x00}
	case 2:
		return bytes.Repeat([]byte{0xab}, 64)
	case 3:
		return []byte("same-data") // identical data on several packets
	default:
		return []byte(fmt.Sprintf("{\"n\":%d}", seq))
	}
}

// opMockSend: A=src, B=dst, C=relay choice, D=data kind; U: 0 => correct sequence, 1 => seq+1, 2 => seq-1(0),
// 3 => empty data, 4 => unknown destination, 5 => unknown relay, 6 => dest == self.
func (s *Sim) opMockSend(op Op) *Violation {
	src := s.chain(op.A)
	dst := s.otherChain(src, op.B).Name
	relay := s.relayChoice(src.Name, dst, op.C)
	ctx, write := src.Branch()
	seq := src.App.TIBCKeeper.PacketKeeper.GetNextSequenceSend(ctx, src.Name, dst)
	data := mockData(op.D, seq)
	note := ""
	switch op.U {
	case 1:
		seq++
		note = "seq+1"
	case 2:
		seq--
		note = "seq-1"
	case 3:
		data = nil
		note = "empty-data"
	case 4:
		dst = unknownChain(dst, "chain-nowhere", op.D)
		seq = src.App.TIBCKeeper.PacketKeeper.GetNextSequenceSend(ctx, src.Name, dst)
		note = "unknown-dest"
	case 5:
		relay = unknownChain(dst, "chain-norelay", op.D)
		note = "unknown-relay"
	case 6:
		note = "dest-self"
		dst = src.Name
		seq = src.App.TIBCKeeper.PacketKeeper.GetNextSequenceSend(ctx, src.Name, dst)
	}
	p := packettypes.NewPacket(data, seq, src.Name, dst, relay, PortMock)
	st := &Step{Op: op, Kind: "mocksend", Chain: src.Name, HBefore: src.Height, Packet: &p,
		Src: src.Name, Dst: dst, Relay: relay, Port: PortMock, Note: note}
	em := sdk.NewEventManager()
	ctx = ctx.WithEventManager(em)
	err := src.App.TIBCKeeper.PacketKeeper.SendPacket(ctx, p)
	if err == nil {
		write()
		st.OK = true
	} else {
		st.Res = &abci.ExecTxResult{Code: 1, Log: err.Error()}
	}
	src.CommitEmpty(1)
	st.HAfter = src.Height
	if st.OK {
		st.Res = &abci.ExecTxResult{Events: em.ABCIEvents()}
		s.absorbEvents(src, st.Res.Events)
	}
	return s.record(st)
}

// HostileSend commits, through the packet keeper, a packet with attacker-chosen data on an
// application port (what a buggy or malicious counterparty application could commit).
func (s *Sim) HostileSend(src *world.Chain, dst, relay, port string, data []byte) (*PacketRec, error) {
	ctx, write := src.Branch()
	seq := src.App.TIBCKeeper.PacketKeeper.GetNextSequenceSend(ctx, src.Name, dst)
	p := packettypes.NewPacket(data, seq, src.Name, dst, relay, port)
	if err := src.App.TIBCKeeper.PacketKeeper.SendPacket(ctx, p); err != nil {
		return nil, err
	}
	write()
	src.CommitEmpty(1)
	return s.addPacket(p, src.Height, "hostile"), nil
}

func (s *Sim) opUpdate(op Op) *Violation {
	on := s.chain(op.A)
	of := s.otherChain(on, op.B)
	if !s.W.Links[on.Name][of.Name] {
		return nil
	}
	st := &Step{Op: op, Kind: "update", Chain: on.Name, HBefore: on.Height, Note: "of=" + short(of.Name)}
	st.Res = s.W.UpdateClient(on.Name, of.Name)
	st.OK = st.Res.Code == 0
	st.HAfter = on.Height
	return s.record(st)
}

// proofHeightFor returns a height at which `on` holds a consensus state of `prover` covering
// prover's current state, updating the client if necessary. stale>0 asks for an older height.
func (s *Sim) proofHeightFor(on, prover string, stale int) (int64, bool) {
	if !s.W.Links[on][prover] {
		return 0, false
	}
	ph, err := s.W.EnsureProvable(on, prover)
	if err != nil {
		return 0, false
	}
	return ph, true
}

// consensus heights the client of `of` on `on` currently stores, ascending.
func (s *Sim) ConsensusHeights(on, of string) []int64 {
	c := s.W.Chains[on]
	var hs []int64
	oc := s.W.Chains[of]
	if oc == nil {
		return nil
	}
	for h := int64(1); h <= oc.Height+1; h++ {
		if c.HasConsensusState(of, uint64(h)) {
			hs = append(hs, h)
		}
	}
	return hs
}

// Recv alterations.
var RecvAlters = []string{"", "data", "seq+1", "seq-1", "src", "dst", "swap", "proof-other", "proof-early",
	"proof-trunc", "proof-flip", "height+1", "height-1", "wrong-prover", "never-sent", "signer", "height-old", "proof-splice", "src-alias"}

// opRecv: A=packet, B=target selector (0 => next hop that makes sense, 1 => relay, 2 => dest, 3 => any chain C),
// C=alteration index into RecvAlters (0 = genuine), D = auxiliary.
func (s *Sim) opRecv(op Op) *Violation {
	if len(s.Packets) == 0 {
		return nil
	}
	r := s.Packets[mod(op.A, len(s.Packets))]
	var on *world.Chain
	switch mod(op.B, 4) {
	case 0:
		// first hop that has not received yet
		if r.P.RelayChain != "" && s.canRecv(r, r.P.RelayChain) {
			on = s.W.Chains[r.P.RelayChain]
		} else {
			on = s.W.Chains[r.P.DestinationChain]
		}
	case 1:
		if r.P.RelayChain != "" {
			on = s.W.Chains[r.P.RelayChain]
		} else {
			on = s.W.Chains[r.P.DestinationChain]
		}
	case 2:
		on = s.W.Chains[r.P.DestinationChain]
	default:
		on = s.chain(op.D)
	}
	if on == nil {
		return nil
	}
	return s.doRecv(op, r, on, RecvAlters[mod(op.C, len(RecvAlters))], op.D, op.U)
}

func mutateProof(proof []byte, how string, aux int) []byte {
	out := append([]byte{}, proof...)
	if len(out) == 0 {
		return out
	}
	switch how {
	case "proof-trunc":
		cut := 1 + mod(aux, len(out))
		return out[:len(out)-cut]
	case "proof-flip":
		i := mod(aux*7919, len(out))
		out[i] ^= byte(1 << uint(mod(aux, 8)))
		return out
	}
	return out
}

func (s *Sim) doRecv(op Op, r *PacketRec, on *world.Chain, alter string, aux int, u uint64) *Violation {
	p := r.P
	prover := world.RecvProver(on.Name, p)
	signer := on.Accounts[world.RelayerIdx]
	st := &Step{Op: op, Kind: "recv", Alter: alter}
	if _, ok := s.W.Chains[prover]; !ok {
		return nil
	}
	ph, ok := s.proofHeightFor(on.Name, prover, 0)
	if !ok {
		// no client for the prover: still submit with a proof from the prover at its latest height
		ph = s.W.Chains[prover].Height
		if ph < 2 {
			return nil
		}
		st.Note = "no-client-for-prover"
	}
	proofFrom := prover
	proofKeyPkt := p
	msgPkt := p
	switch alter {
	case "data":
		d := append([]byte{}, p.Data...)
		if mod(aux, 2) == 0 {
			d[mod(aux/2, len(d))] ^= 0x01
		} else {
			d = append(d, 0x00)
		}
		msgPkt.Data = d
	case "seq+1":
		msgPkt.Sequence++
	case "seq-1":
		if msgPkt.Sequence <= 1 {
			return nil
		}
		msgPkt.Sequence--
	case "src":
		o := s.otherChain(s.W.Chains[p.SourceChain], aux).Name
		if o == on.Name {
			return nil
		}
		msgPkt.SourceChain = o
	case "dst":
		msgPkt.DestinationChain = s.otherChain(s.W.Chains[p.DestinationChain], aux).Name
	case "swap":
		msgPkt.SourceChain, msgPkt.DestinationChain = p.DestinationChain, p.SourceChain
	case "proof-other":
		// proof of another packet's commitment on the same prover
		var other *PacketRec
		for i := range s.Packets {
			c := s.Packets[mod(aux+i, len(s.Packets))]
			if c != r {
				other = c
				break
			}
		}
		if other == nil {
			return nil
		}
		proofKeyPkt = other.P
	case "proof-early", "height-old":
		hs := s.ConsensusHeights(on.Name, prover)
		if len(hs) == 0 {
			return nil
		}
		// oldest height the client has (usually before the packet was committed)
		ph = hs[mod(aux, len(hs))]
		if alter == "proof-early" {
			ph = hs[0]
		}
	case "wrong-prover":
		var cands []string
		for _, n := range s.W.Order {
			if n != prover && n != on.Name {
				cands = append(cands, n)
			}
		}
		if len(cands) == 0 {
			return nil
		}
		proofFrom = cands[mod(aux, len(cands))]
		if hp := s.W.Chains[proofFrom].Height; ph > hp {
			ph = hp
		}
	case "never-sent":
		msgPkt.Sequence = p.Sequence + 1000 + uint64(mod(aux, 5))
		msgPkt.Data = []byte("never sent")
	case "signer":
		signer = on.Accounts[[]int{0, world.OutsiderIdx}[mod(aux, 2)]]
	case "src-alias":
		// the same source chain name with one character percent-encoded (another string, hence another packet
		// identity and another receipt key), presented with the genuine proof
		i := mod(aux, len(p.SourceChain))
		msgPkt.SourceChain = fmt.Sprintf("%s%%%02x%s", p.SourceChain[:i], p.SourceChain[i], p.SourceChain[i+1:])
	case "proof-splice":
		// a packet nobody sent; its proof is spliced below
		msgPkt.Sequence = p.Sequence + 500 + uint64(mod(aux, 5))
		msgPkt.Data = []byte("forged by splice")
	}
	// the proof is for the key the *message* names, or (odd u) the genuine proof of the original
	// packet is kept while the message fields are altered
	keyPkt := msgPkt
	if alter == "proof-other" {
		keyPkt = proofKeyPkt
	}
	switch alter {
	case "seq+1", "seq-1", "src", "dst", "swap", "never-sent":
		if u%2 == 1 {
			keyPkt = p
			st.Note += "orig-proof"
		}
	case "src-alias":
		keyPkt = p
		st.Note += "orig-proof"
	}
	qh := ph
	msg, err := s.W.RecvMsg(on.Name, proofFrom, keyPkt, qh, signer.Addr)
	if err != nil {
		return nil
	}
	if alter == "proof-splice" {
		// lower level: an honest IAVL proof, from a foreign tree, that the forged commitment sits under the packet's
		// key; upper level: the prover's genuine multistore proof of its tibc store (taken from the original packet)
		genuine, err := s.W.RecvMsg(on.Name, proofFrom, p, qh, signer.Addr)
		if err != nil {
			return nil
		}
		spliced, ok := spliceProof(on, msgPkt, genuine.ProofCommitment)
		if !ok {
			return nil
		}
		msg.ProofCommitment = spliced
		proofFrom = ""
	}
	msg.Packet = msgPkt
	switch alter {
	case "proof-trunc", "proof-flip":
		msg.ProofCommitment = mutateProof(msg.ProofCommitment, alter, aux)
		proofFrom = ""
	case "height+1":
		msg.ProofHeight = clienttypes.NewHeight(0, uint64(ph+1))
	case "height-1":
		if ph <= 2 {
			return nil
		}
		msg.ProofHeight = clienttypes.NewHeight(0, uint64(ph-1))
	}
	st.Packet = &msg.Packet
	st.ProofHeight = int64(msg.ProofHeight.RevisionHeight)
	st.ProofFrom = proofFrom
	s.deliver(st, on, signer, msg)
	s.sent = append(s.sent, sentMsg{on.Name, msg, st})
	return s.record(st)
}

// spliceProof builds a two-level proof whose IAVL level comes from a foreign tree holding sha256(pkt.Data) under
// pkt's commitment key and whose multistore level is the one of the genuine proof.
func spliceProof(on *world.Chain, pkt packettypes.Packet, genuine []byte) ([]byte, bool) {
	cdc := on.App.AppCodec()
	var g commitmenttypes.MerkleProof
	if err := cdc.Unmarshal(genuine, &g); err != nil || len(g.Proofs) != 2 {
		return nil, false
	}
	ic := lcgen.NewIAVLChain(host.StoreKey)
	key := host.PacketCommitmentKey(pkt.SourceChain, pkt.DestinationChain, pkt.Sequence)
	ic.Set(key, Sha(pkt.Data))
	ic.Set([]byte("filler"), []byte("x"))
	ver := ic.Commit()
	fbz, err := ic.Proof(key, ver, func(mp *commitmenttypes.MerkleProof) ([]byte, error) { return cdc.Marshal(mp) })
	if err != nil {
		return nil, false
	}
	var f commitmenttypes.MerkleProof
	if err := cdc.Unmarshal(fbz, &f); err != nil || len(f.Proofs) != 2 {
		return nil, false
	}
	out := commitmenttypes.MerkleProof{Proofs: []*ics23.CommitmentProof{f.Proofs[0], g.Proofs[1]}}
	bz, err := cdc.Marshal(&out)
	return bz, err == nil
}

var AckAlters = []string{"", "ack-bytes", "ack-swap", "data", "seq+1", "seq-1", "proof-other", "proof-trunc", "proof-flip",
	"height+1", "height-old", "wrong-prover", "signer", "early", "recv-proof"}

// opAck: A=packet, B=target (0 => sensible hop, 1 => relay, 2 => source, 3 => any), C=alteration, D=aux.
func (s *Sim) opAck(op Op) *Violation {
	if len(s.Packets) == 0 {
		return nil
	}
	r := s.Packets[mod(op.A, len(s.Packets))]
	var on *world.Chain
	switch mod(op.B, 4) {
	case 0:
		if r.P.RelayChain != "" && s.canAck(r, r.P.RelayChain) {
			on = s.W.Chains[r.P.RelayChain]
		} else {
			on = s.W.Chains[r.P.SourceChain]
		}
	case 1:
		if r.P.RelayChain != "" {
			on = s.W.Chains[r.P.RelayChain]
		} else {
			on = s.W.Chains[r.P.SourceChain]
		}
	case 2:
		on = s.W.Chains[r.P.SourceChain]
	default:
		on = s.chain(op.D)
	}
	if on == nil {
		return nil
	}
	return s.doAck(op, r, on, AckAlters[mod(op.C, len(AckAlters))], op.D, op.U)
}

func (s *Sim) doAck(op Op, r *PacketRec, on *world.Chain, alter string, aux int, u uint64) *Violation {
	p := r.P
	prover := world.AckProver(on.Name, p)
	if _, ok := s.W.Chains[prover]; !ok {
		return nil
	}
	signer := on.Accounts[world.RelayerIdx]
	st := &Step{Op: op, Kind: "ack", Alter: alter}
	ackBytes, known := r.Acks[prover]
	if !known {
		if alter != "early" && alter != "ack-bytes" {
			return nil
		}
		ackBytes = packettypes.NewResultAcknowledgement([]byte{1}).GetBytes()
		st.Note = "ack-not-written-yet"
	}
	ph, ok := s.proofHeightFor(on.Name, prover, 0)
	if !ok {
		ph = s.W.Chains[prover].Height
		if ph < 2 {
			return nil
		}
		st.Note = "no-client-for-prover"
	}
	proofFrom := prover
	msgPkt := p
	keyPkt := p
	ack := append([]byte{}, ackBytes...)
	switch alter {
	case "ack-bytes":
		if mod(aux, 2) == 0 {
			ack[mod(aux/2, len(ack))] ^= 0x01
		} else {
			ack = append(ack, 0x00)
		}
	case "ack-swap":
		var a packettypes.Acknowledgement
		if err := a.Unmarshal(ack); err == nil {
			if _, isErr := a.Response.(*packettypes.Acknowledgement_Error); isErr {
				ack = packettypes.NewResultAcknowledgement([]byte{1}).GetBytes()
			} else {
				ack = packettypes.NewErrorAcknowledgement("forged failure").GetBytes()
			}
		} else {
			ack = packettypes.NewErrorAcknowledgement("forged failure").GetBytes()
		}
	case "data":
		d := append([]byte{}, p.Data...)
		d[mod(aux, len(d))] ^= 0x01
		msgPkt.Data = d
	case "seq+1":
		msgPkt.Sequence++
		keyPkt = msgPkt
	case "seq-1":
		if p.Sequence <= 1 {
			return nil
		}
		msgPkt.Sequence--
		keyPkt = msgPkt
	case "proof-other":
		var other *PacketRec
		for i := range s.Packets {
			c := s.Packets[mod(aux+i, len(s.Packets))]
			if c != r {
				other = c
				break
			}
		}
		if other == nil {
			return nil
		}
		keyPkt = other.P
	case "height-old":
		hs := s.ConsensusHeights(on.Name, prover)
		if len(hs) == 0 {
			return nil
		}
		ph = hs[mod(aux, len(hs))]
	case "wrong-prover":
		var cands []string
		for _, n := range s.W.Order {
			if n != prover && n != on.Name {
				cands = append(cands, n)
			}
		}
		if len(cands) == 0 {
			return nil
		}
		proofFrom = cands[mod(aux, len(cands))]
		if hp := s.W.Chains[proofFrom].Height; ph > hp {
			ph = hp
		}
	case "signer":
		signer = on.Accounts[[]int{0, world.OutsiderIdx}[mod(aux, 2)]]
	}
	var msg *packettypes.MsgAcknowledgement
	var err error
	if alter == "recv-proof" {
		// present the proof of the packet commitment instead of the ack
		rm, e := s.W.RecvMsg(on.Name, proofFrom, keyPkt, ph, signer.Addr)
		if e != nil {
			return nil
		}
		msg = packettypes.NewMsgAcknowledgement(msgPkt, ack, rm.ProofCommitment, rm.ProofHeight, signer.Addr)
	} else {
		msg, err = s.W.AckMsg(on.Name, proofFrom, keyPkt, ack, ph, signer.Addr)
		if err != nil {
			return nil
		}
		msg.Packet = msgPkt
	}
	switch alter {
	case "proof-trunc", "proof-flip":
		msg.ProofAcked = mutateProof(msg.ProofAcked, alter, aux)
		proofFrom = ""
	case "height+1":
		msg.ProofHeight = clienttypes.NewHeight(0, uint64(ph+1))
	}
	st.Packet = &msg.Packet
	st.Ack = msg.Acknowledgement
	st.ProofHeight = int64(msg.ProofHeight.RevisionHeight)
	st.ProofFrom = proofFrom
	s.deliver(st, on, signer, msg)
	s.sent = append(s.sent, sentMsg{on.Name, msg, st})
	return s.record(st)
}

// channels that have at least one packet, sorted.
func (s *Sim) channels() [][2]string {
	seen := map[string]bool{}
	var out [][2]string
	for _, r := range s.Packets {
		k := r.P.SourceChain + ">" + r.P.DestinationChain
		if !seen[k] {
			seen[k] = true
			out = append(out, [2]string{r.P.SourceChain, r.P.DestinationChain})
		}
	}
	sort.Slice(out, func(i, j int) bool { return out[i][0]+out[i][1] < out[j][0]+out[j][1] })
	return out
}

// MaxSeq returns the highest sequence announced on a channel.
func (s *Sim) MaxSeq(src, dst string) uint64 {
	var m uint64
	for _, r := range s.Packets {
		if r.P.SourceChain == src && r.P.DestinationChain == dst && r.P.Sequence > m {
			m = r.P.Sequence
		}
	}
	return m
}

// pickN chooses a clean sequence around interesting points. kind: 0 => highest contiguous acked,
// 1 => that+1, 2 => clean point, 3 => clean point+1, 4 => max sent, 5 => 0, 6 => 2^64-1, 7.. => small k
func (s *Sim) pickN(chain, src, dst string, kind int, u uint64) uint64 {
	c := s.W.Chains[chain]
	cp := s.CleanAt(chain, src, dst, c.Height)
	max := s.MaxSeq(src, dst)
	contig := cp
	for q := cp + 1; q <= max; q++ {
		// acked on the source == no commitment left and it was sent
		if len(s.CommitmentAt(src, src, dst, q, s.W.Chains[src].Height)) != 0 {
			break
		}
		contig = q
	}
	var maxAcked uint64
	for q := max; q > cp; q-- {
		if len(s.CommitmentAt(src, src, dst, q, s.W.Chains[src].Height)) == 0 {
			maxAcked = q
			break
		}
	}
	switch mod(kind, 12) {
	case 9, 10:
		return maxAcked
	case 11:
		return maxAcked + 1
	case 0:
		return contig
	case 1:
		return contig + 1
	case 2:
		return cp
	case 3:
		return cp + 1
	case 4:
		return max
	case 5:
		return 0
	case 6:
		return ^uint64(0)
	case 7:
		if contig > 1 {
			return contig - 1
		}
		return contig
	default:
		return 1 + u%4
	}
}

// opClean: A=channel, C=N kind, B=relay choice, D: signer (0 relayer, 1 user, 2 outsider), U aux
func (s *Sim) opClean(op Op) *Violation {
	chs := s.channels()
	if len(chs) == 0 {
		return nil
	}
	ch := chs[mod(op.A, len(chs))]
	src := s.W.Chains[ch[0]]
	n := s.pickN(src.Name, ch[0], ch[1], op.C, op.U)
	relay := s.relayChoice(ch[0], ch[1], op.B)
	if op.U%5 == 4 {
		// the proof-less clean request submitted on the *receiving* side of the channel (destination, or a relay
		// chain), naming the real source: it can only ever concern the executing chain's own outgoing channels
		on := s.W.Chains[ch[1]]
		if r := s.relayChoice(ch[0], ch[1], 1+int(op.U/5)%3); r != "" && (op.U/5)%2 == 1 {
			on = s.W.Chains[r]
		}
		if on != nil && on.Name != ch[0] {
			// the highest sequence this chain has itself written an acknowledgement for (what a local check of
			// "highest acknowledged" would be satisfied with), or a small number
			n = 0
			for q := s.MaxSeq(ch[0], ch[1]); q >= 1; q-- {
				if len(s.AckAt(on.Name, ch[0], ch[1], q, on.Height)) != 0 {
					n = q
					break
				}
			}
			if mod(op.C, 3) == 2 || n == 0 {
				n = 1 + op.U%3
			}
			signer := on.Accounts[[]int{world.RelayerIdx, 0, world.OutsiderIdx}[mod(op.D, 3)]]
			// the relay field names a chain the executor has a client for, so that only the clean rules can refuse
			cp := packettypes.NewCleanPacket(n, ch[0], ch[1], ch[0])
			msg := packettypes.NewMsgCleanPacket(cp, signer.Addr)
			st := &Step{Op: op, Kind: "clean", Clean: &msg.CleanPacket, Note: "submitted-on-receiving-side"}
			s.Labels["clean-submitted-on-receiving-side"]++
			s.deliver(st, on, signer, msg)
			return s.record(st)
		}
	}
	signer := src.Accounts[[]int{world.RelayerIdx, 0, world.OutsiderIdx}[mod(op.D, 3)]]
	cp := packettypes.NewCleanPacket(n, ch[0], ch[1], relay)
	msg := packettypes.NewMsgCleanPacket(cp, signer.Addr)
	st := &Step{Op: op, Kind: "clean", Clean: &msg.CleanPacket}
	s.deliver(st, src, signer, msg)
	return s.record(st)
}

var RecvCleanAlters = []string{"", "N+1", "N-1", "proof-other-channel", "proof-trunc", "height-old", "wrong-prover", "N-local"}

// opRecvClean: A=channel, B=target (0 sensible: relay if the source cleaned with one else dest, 1 dest, 2 any chain D),
// C=alter, D=aux, U: relay choice
func (s *Sim) opRecvClean(op Op) *Violation {
	chs := s.channels()
	if len(chs) == 0 {
		return nil
	}
	ch := chs[mod(op.A, len(chs))]
	srcName, dstName := ch[0], ch[1]
	relay := s.relayChoice(srcName, dstName, int(op.U%3))
	var on *world.Chain
	switch mod(op.B, 3) {
	case 0:
		if relay != "" {
			on = s.W.Chains[relay]
		} else {
			on = s.W.Chains[dstName]
		}
	case 1:
		on = s.W.Chains[dstName]
	default:
		on = s.chain(op.D)
	}
	if on == nil || on.Name == srcName {
		return nil
	}
	alter := ""
	if op.C < len(RecvCleanAlters) {
		alter = RecvCleanAlters[op.C]
	}
	cpk := packettypes.NewCleanPacket(0, srcName, dstName, relay)
	prover := srcName
	if on.Name == dstName && relay != "" {
		prover = relay
	}
	n := s.CleanAt(prover, srcName, dstName, s.W.Chains[prover].Height)
	st := &Step{Op: op, Kind: "recvclean", Alter: alter}
	ph, ok := s.proofHeightFor(on.Name, prover, 0)
	if !ok {
		return nil
	}
	proofFrom := prover
	keyPkt := cpk
	switch alter {
	case "N+1":
		n++
	case "N-1":
		if n <= 1 {
			return nil
		}
		n--
	case "N-local":
		// a value plausible for this chain (its own max ack) rather than the proven one
		n = s.pickN(on.Name, srcName, dstName, op.D, op.U)
	case "proof-other-channel":
		for i, o := range chs {
			if i != mod(op.A, len(chs)) {
				keyPkt = packettypes.NewCleanPacket(0, o[0], o[1], "")
				if _, ok := s.W.Chains[o[0]]; ok && s.W.Links[on.Name][o[0]] && o[0] != on.Name {
					proofFrom = o[0]
					if h, ok2 := s.proofHeightFor(on.Name, o[0], 0); ok2 {
						ph = h
					}
				}
				break
			}
		}
	case "height-old":
		hs := s.ConsensusHeights(on.Name, prover)
		if len(hs) == 0 {
			return nil
		}
		ph = hs[mod(op.D, len(hs))]
	case "wrong-prover":
		var cands []string
		for _, nme := range s.W.Order {
			if nme != prover && nme != on.Name {
				cands = append(cands, nme)
			}
		}
		if len(cands) == 0 {
			return nil
		}
		proofFrom = cands[mod(op.D, len(cands))]
		if hp := s.W.Chains[proofFrom].Height; ph > hp {
			ph = hp
		}
	}
	if n == 0 {
		return nil
	}
	cpk.Sequence = n
	signer := on.Accounts[world.RelayerIdx]
	msg, err := s.W.RecvCleanMsg(on.Name, proofFrom, keyPkt, ph, signer.Addr)
	if err != nil {
		return nil
	}
	msg.CleanPacket = cpk
	if alter == "proof-trunc" {
		msg.ProofCommitment = mutateProof(msg.ProofCommitment, alter, op.D)
		proofFrom = ""
	}
	st.Clean = &msg.CleanPacket
	st.ProofHeight = int64(msg.ProofHeight.RevisionHeight)
	st.ProofFrom = proofFrom
	s.deliver(st, on, signer, msg)
	s.sent = append(s.sent, sentMsg{on.Name, msg, st})
	return s.record(st)
}

// opReplay re-submits an earlier relay message verbatim. A = index (from the end when B odd).
// C=1 asks for a *fresh proof* of the same message instead of the old bytes.
func (s *Sim) opReplay(op Op) *Violation {
	if len(s.sent) == 0 {
		return nil
	}
	var sm sentMsg
	if mod(op.B, 2) == 1 {
		sm = s.sent[len(s.sent)-1-mod(op.A, len(s.sent))]
	} else {
		sm = s.sent[mod(op.A, len(s.sent))]
	}
	on := s.W.Chains[sm.Chain]
	signer := on.Accounts[world.RelayerIdx]
	st := &Step{Op: op, Kind: sm.Step.Kind, Replay: true, Alter: sm.Step.Alter, Packet: sm.Step.Packet, Ack: sm.Step.Ack,
		Clean: sm.Step.Clean, ProofHeight: sm.Step.ProofHeight, ProofFrom: sm.Step.ProofFrom}
	msg := sm.Msg
	if mod(op.C, 2) == 1 && sm.Step.Alter == "" && sm.Step.ProofFrom != "" {
		// fresh proof at the newest height
		prover := sm.Step.ProofFrom
		ph, ok := s.proofHeightFor(on.Name, prover, 0)
		if ok {
			switch m := sm.Msg.(type) {
			case *packettypes.MsgRecvPacket:
				if nm, err := s.W.RecvMsg(on.Name, prover, m.Packet, ph, signer.Addr); err == nil {
					msg = nm
					st.ProofHeight = ph
					st.Note = "fresh-proof"
				}
			case *packettypes.MsgAcknowledgement:
				if nm, err := s.W.AckMsg(on.Name, prover, m.Packet, m.Acknowledgement, ph, signer.Addr); err == nil {
					msg = nm
					st.ProofHeight = ph
					st.Note = "fresh-proof"
				}
			case *packettypes.MsgRecvCleanPacket:
				if nm, err := s.W.RecvCleanMsg(on.Name, prover, m.CleanPacket, ph, signer.Addr); err == nil {
					msg = nm
					st.ProofHeight = ph
					st.Note = "fresh-proof"
				}
			}
		}
	}
	// the signer field inside the message must match the signing account
	switch m := msg.(type) {
	case *packettypes.MsgRecvPacket:
		cp := *m
		cp.Signer = signer.Addr.String()
		msg = &cp
	case *packettypes.MsgAcknowledgement:
		cp := *m
		cp.Signer = signer.Addr.String()
		msg = &cp
	case *packettypes.MsgRecvCleanPacket:
		cp := *m
		cp.Signer = signer.Addr.String()
		msg = &cp
	}
	s.deliver(st, on, signer, msg)
	return s.record(st)
}

// opCleanRaid re-submits verbatim (old proof, old proof height) an earlier accepted receive-clean whose
// sequence is below the target chain's current clean point, and then, verbatim, every earlier receive
// on that chain and channel: the stale clean must not move the clean point back and re-open the range.
func (s *Sim) opCleanRaid(op Op) *Violation {
	var idx []int
	for i, sm := range s.sent {
		m, ok := sm.Msg.(*packettypes.MsgRecvCleanPacket)
		if !ok || !sm.Step.OK || sm.Step.Alter != "" {
			continue
		}
		cp := m.CleanPacket
		if s.CleanAt(sm.Chain, cp.SourceChain, cp.DestinationChain, s.W.Chains[sm.Chain].Height) > cp.Sequence {
			idx = append(idx, i)
		}
	}
	if len(idx) == 0 {
		return nil
	}
	i := idx[mod(op.A, len(idx))]
	sm := s.sent[i]
	cp := sm.Msg.(*packettypes.MsgRecvCleanPacket).CleanPacket
	s.Labels["stale-clean-resubmitted"]++
	if v := s.opReplay(Op{K: "replay", A: i}); v != nil {
		return v
	}
	n := len(s.sent)
	for j := 0; j < n; j++ {
		o := s.sent[j]
		m, ok := o.Msg.(*packettypes.MsgRecvPacket)
		if !ok || o.Chain != sm.Chain || m.Packet.SourceChain != cp.SourceChain || m.Packet.DestinationChain != cp.DestinationChain || !o.Step.OK {
			continue
		}
		if v := s.opReplay(Op{K: "replay", A: j}); v != nil {
			return v
		}
	}
	return nil
}

// opRulesDiscard executes a rule change on a branch of the state that is then thrown away, as happens to the
// first message of a governance proposal whose second message fails (and to every CheckTx / simulation): it
// must leave no trace, neither in the store nor in anything the application keeps in memory.
func (s *Sim) opRulesDiscard(op Op) *Violation {
	c := s.chain(op.A)
	sets := RuleSets(s.W.Order)
	rs := sets[mod(op.B+8*int(op.U/3), len(sets))]
	ctx, _ := c.Branch()
	if err := c.App.TIBCKeeper.RoutingKeeper.SetRoutingRules(ctx, rs); err == nil {
		s.Labels["rule-change-executed-and-discarded"]++
	}
	return nil
}

// opRules sets routing rules on a chain through the keeper (as a passed proposal would).
// A=chain, B=rule set index.
func (s *Sim) opRules(op Op) *Violation {
	c := s.chain(op.A)
	sets := RuleSets(s.W.Order)
	// B alone addresses the first few (generic) lists; two times in three U spreads the choice over all of them
	idx := op.B
	if op.U%3 != 0 {
		idx = op.B + 8*int(op.U/3)
	}
	rs := sets[mod(idx, len(sets))]
	ctx, write := c.Branch()
	st := &Step{Op: op, Kind: "gov", Chain: c.Name, HBefore: c.Height, Note: "rules=" + strings.Join(rs, ";")}
	if err := c.App.TIBCKeeper.RoutingKeeper.SetRoutingRules(ctx, rs); err == nil {
		write()
		st.OK = true
		// the harness's own record of the rule list in force (the last accepted one)
		if s.RulesSet == nil {
			s.RulesSet = map[string][]string{}
		}
		s.RulesSet[c.Name] = append([]string{}, rs...)
	} else {
		st.Res = &abci.ExecTxResult{Code: 1, Log: err.Error()}
	}
	c.CommitEmpty(1)
	st.HAfter = c.Height
	return s.record(st)
}

// RuleSets enumerates the rule sets used by world properties.
func RuleSets(order []string) [][]string {
	sets := [][]string{
		{"*,*,*"},
		{},
		{"*,*," + PortNFT},
		{"*,*," + PortMT},
		{"*,*," + PortMock},
	}
	for _, a := range order {
		sets = append(sets, []string{a + ",*,*"})
		for _, b := range order {
			if a != b {
				sets = append(sets, []string{a + "," + b + ",*"})
			}
		}
	}
	// rule lists of two and three rules; several contain near-miss literals (a proper prefix of a port, a proper
	// suffix of a chain name) which, read literally, allow nothing
	pfx := func(x string) string { return x[:len(x)-1-len(x)/3] }
	sfx := func(x string) string { return x[1+len(x)/3:] }
	sets = append(sets,
		[]string{"*,*," + pfx(PortMock), "*,*," + PortNFT},
		[]string{"*,*," + pfx(PortNFT), "*,*," + pfx(PortMT), "*,*," + PortMock},
		[]string{"*,*," + PortNFT, "*,*," + PortMT},
		[]string{"*,*," + PortMT, "*,*," + PortMock, "*,*," + PortNFT})
	for i, a := range order {
		b := order[(i+1)%len(order)]
		sets = append(sets,
			[]string{"*,*," + PortNFT, sfx(a) + ",*,*"},
			[]string{b + "," + a + "," + PortMT, sfx(a) + ",*," + pfx(PortMock), "*," + sfx(b) + "," + PortNFT},
			[]string{a + "," + b + ",*", b + "," + a + ",*"})
	}
	return sets
}

var _ = routingtypes.NFT
var _ = nfttransfer.ModuleName
var _ = mttransfer.ModuleName
var _ = nfttypes.ModuleName
var _ = mttypes.ModuleName

// opRound drives one packet through every remaining genuine hop (receives, then acks).
func (s *Sim) opRound(op Op) *Violation {
	if len(s.Packets) == 0 {
		return nil
	}
	r := s.Packets[mod(op.A, len(s.Packets))]
	for i := 0; i < 6; i++ {
		moved := false
		for _, on := range []string{r.P.RelayChain, r.P.DestinationChain} {
			if on != "" && s.canRecv(r, on) {
				if v := s.doRecv(op, r, s.W.Chains[on], "", 0, 0); v != nil {
					return v
				}
				moved = true
				break
			}
		}
		if moved {
			continue
		}
		for _, on := range []string{r.P.RelayChain, r.P.SourceChain} {
			if on != "" && s.canAck(r, on) {
				if v := s.doAck(op, r, s.W.Chains[on], "", 0, 0); v != nil {
					return v
				}
				moved = true
				break
			}
		}
		if !moved {
			break
		}
	}
	return nil
}

// opCleanFlow propagates a source clean point one genuine hop (relay or destination).
func (s *Sim) opCleanFlow(op Op) *Violation {
	type cand struct {
		src, dst, on, relay, prover string
	}
	var cands []cand
	for _, ch := range s.channels() {
		src, dst := ch[0], ch[1]
		for _, on := range s.W.Order {
			if on == src {
				continue
			}
			for _, relay := range append([]string{""}, s.W.Order...) {
				if relay == src || relay == dst {
					continue
				}
				if on != dst && on != relay {
					continue
				}
				prover := src
				if on == dst && relay != "" {
					prover = relay
				}
				pn := s.CleanAt(prover, src, dst, s.W.Chains[prover].Height)
				if pn > s.CleanAt(on, src, dst, s.W.Chains[on].Height) && s.W.Links[on][prover] {
					cands = append(cands, cand{src, dst, on, relay, prover})
				}
			}
		}
	}
	if len(cands) == 0 {
		return nil
	}
	c := cands[mod(op.A, len(cands))]
	on := s.W.Chains[c.on]
	n := s.CleanAt(c.prover, c.src, c.dst, s.W.Chains[c.prover].Height)
	ph, ok := s.proofHeightFor(c.on, c.prover, 0)
	if !ok {
		return nil
	}
	cpk := packettypes.NewCleanPacket(n, c.src, c.dst, c.relay)
	signer := on.Accounts[world.RelayerIdx]
	msg, err := s.W.RecvCleanMsg(c.on, c.prover, cpk, ph, signer.Addr)
	if err != nil {
		return nil
	}
	st := &Step{Op: op, Kind: "recvclean", Clean: &msg.CleanPacket, ProofHeight: ph, ProofFrom: c.prover}
	s.deliver(st, on, signer, msg)
	s.sent = append(s.sent, sentMsg{on.Name, msg, st})
	return s.record(st)
}

// opStale re-submits, with a fresh valid proof where one can be had, a receive or an ack whose
// sequence is at or below a clean point on the target chain (B even: recv, odd: ack).
func (s *Sim) opStale(op Op) *Violation {
	type cand struct {
		r  *PacketRec
		on string
	}
	var cands []cand
	for _, r := range s.Packets {
		for _, on := range s.W.Order {
			if s.CleanAt(on, r.P.SourceChain, r.P.DestinationChain, s.W.Chains[on].Height) >= r.P.Sequence {
				cands = append(cands, cand{r, on})
			}
		}
	}
	if len(cands) == 0 {
		return nil
	}
	c := cands[mod(op.A, len(cands))]
	if mod(op.B, 2) == 0 {
		if c.on == c.r.P.SourceChain {
			return nil
		}
		return s.doRecv(op, c.r, s.W.Chains[c.on], "", 0, 0)
	}
	if c.on == c.r.P.DestinationChain {
		return nil
	}
	return s.doAck(op, c.r, s.W.Chains[c.on], "", 0, 0)
}

// opHostile commits attacker-chosen packet data on the NFT or MT port of chain A for chain B
// (what a buggy or foreign counterparty application could commit). D selects the shape.
func (s *Sim) opHostile(op Op) *Violation {
	src := s.chain(op.A)
	dstC := s.otherChain(src, op.B)
	dst := dstC.Name
	relay := s.relayChoice(src.Name, dst, op.C)
	user := src.Accounts[0].Addr.String()
	rcv := dstC.Accounts[mod(int(op.U), world.NumUsers)].Addr.String()
	port := PortNFT
	var data []byte
	kind := mod(op.D, 14)
	note := ""
	switch kind {
	case 0:
		data, note = []byte{0xff, 0xfe, 0x01, 0x02}, "nft-garbage"
	case 1:
		data, note = nfttransfer.NewNonFungibleTokenPacketData("evilclass", "x", "", user, rcv, true, "").GetBytes(), "nft-invalid-id"
	case 2:
		data, note = nfttransfer.NewNonFungibleTokenPacketData("kitty", "tok1", "", user, rcv, false, "").GetBytes(), "nft-back-no-prefix"
	case 3:
		data, note = nfttransfer.NewNonFungibleTokenPacketData("nft/"+dst+"/"+src.Name+"/nosuch", "tok9", "", user, rcv, false, "").GetBytes(), "nft-back-unknown"
	case 4:
		data, note = nfttransfer.NewNonFungibleTokenPacketData("evilclass", "tok1", "", user, "  ", true, "").GetBytes(), "nft-blank-receiver"
	case 5:
		data, note = nfttransfer.NewNonFungibleTokenPacketData("evilclass", "tok1", "", "", rcv, true, "").GetBytes(), "nft-blank-sender"
	case 6:
		data, note = nfttransfer.NewNonFungibleTokenPacketData("evilclass", "tok1", strings.Repeat("u", 300), user, rcv, true, "").GetBytes(), "nft-long-uri"
	case 7:
		port = PortMT
		data, note = []byte{0x0a, 0xff, 0xff}, "mt-garbage"
	case 8:
		port = PortMT
		data, note = mttransfer.NewMultiTokenPacketData("evildenom", "m1", user, rcv, true, "", 0, nil).GetBytes(), "mt-zero-amount"
	case 9:
		port = PortMT
		data, note = mttransfer.NewMultiTokenPacketData("evildenom", "m1", user, rcv, true, "", ^uint64(0), nil).GetBytes(), "mt-max-amount"
	case 10:
		port = PortMT
		data, note = mttransfer.NewMultiTokenPacketData("mt/"+dst+"/"+src.Name+"/nosuch", "m1", user, rcv, false, "", 5, nil).GetBytes(), "mt-back-unknown"
	case 11:
		port = PortMT
		data, note = mttransfer.NewMultiTokenPacketData("evildenom", "m1", user, "zzz", true, "", 5, nil).GetBytes(), "mt-bad-receiver"
	case 12:
		port = PortMT
		data, note = mttransfer.NewMultiTokenPacketData("plainclass", "m1", user, rcv, false, "", 5, nil).GetBytes(), "mt-back-no-prefix"
	default:
		port = "noport"
		data, note = []byte("x"), "unknown-port"
	}
	r, err := s.HostileSend(src, dst, relay, port, data)
	if err != nil {
		return nil
	}
	s.Label("hostile:" + note)
	_ = r
	return nil
}

// LabelFailureStage classifies failing steps by where the fault was detected.
func LabelFailureStage(s *Sim, st *Step) *Violation {
	if st.OK || st.Res == nil {
		return nil
	}
	log := st.Res.Log
	switch {
	case strings.Contains(log, "commitment verification") || strings.Contains(log, "acknowledgement verification") ||
		strings.Contains(log, "invalid proof") || strings.Contains(log, "proof height") || strings.Contains(log, "consensus state"):
		s.Label("stage:proof")
	case strings.Contains(log, "callback failed") || strings.Contains(log, "cannot unmarshal"):
		// the packet keeper has already written the receipt when the application callback fails
		s.Label("stage:callback")
		s.Label("stage:after-first-write")
	case strings.Contains(log, "route not found") && st.Kind == "recv":
		s.Label("stage:after-first-write")
	case strings.Contains(log, "already exists"):
		s.Label("stage:after-first-write")
	case strings.Contains(log, "already has been received") || strings.Contains(log, "commitment bytes are not equal") ||
		strings.Contains(log, "sequence illegal"):
		s.Label("stage:replay-protection")
	case strings.Contains(log, "not found") || strings.Contains(log, "unauthorized") || strings.Contains(log, "route"):
		s.Label("stage:routing")
	case strings.Contains(log, "insufficient") || strings.Contains(log, "not exist") || strings.Contains(log, "owner") || strings.Contains(log, "invalid NFT") || strings.Contains(log, "invalid mt"):
		s.Label("stage:application")
	default:
		s.Label("stage:validation")
	}
	return nil
}

// opBurst sends 9-14 mock packets on one channel and delivers each of them (no acks), so that
// two-digit sequences and many simultaneously pending packets occur. A=src, B=dst, C=relay, D=count.
func (s *Sim) opBurst(op Op) *Violation {
	n := 9 + mod(op.D, 6)
	for i := 0; i < n; i++ {
		before := len(s.Packets)
		if v := s.opMockSend(Op{K: "mocksend", A: op.A, B: op.B, C: op.C, D: i}); v != nil {
			return v
		}
		if len(s.Packets) == before {
			return nil
		}
		r := s.Packets[len(s.Packets)-1]
		for _, on := range []string{r.P.RelayChain, r.P.DestinationChain} {
			if on != "" && s.canRecv(r, on) {
				if v := s.doRecv(op, r, s.W.Chains[on], "", 0, 0); v != nil {
					return v
				}
			}
		}
	}
	return nil
}

// opBatch delivers two receive messages in ONE transaction on the same chain: a genuine receive of a
// pending packet plus (B%3) 0: the same message again, 1: a genuine receive of another pending packet,
// 2: a receive with altered data. The transaction is atomic: either both take effect or neither.
func (s *Sim) opBatch(op Op) *Violation {
	type cand struct {
		r  *PacketRec
		on string
	}
	var cands []cand
	for _, r := range s.Packets {
		for _, on := range s.W.Order {
			if s.canRecv(r, on) {
				cands = append(cands, cand{r, on})
			}
		}
	}
	if len(cands) == 0 {
		return nil
	}
	c := cands[mod(op.A, len(cands))]
	on := s.W.Chains[c.on]
	signer := on.Accounts[world.RelayerIdx]
	build := func(r *PacketRec, alterData bool) *packettypes.MsgRecvPacket {
		prover := world.RecvProver(on.Name, r.P)
		ph, ok := s.proofHeightFor(on.Name, prover, 0)
		if !ok {
			return nil
		}
		m, err := s.W.RecvMsg(on.Name, prover, r.P, ph, signer.Addr)
		if err != nil {
			return nil
		}
		if alterData {
			d := append([]byte{}, r.P.Data...)
			d[0] ^= 0x01
			m.Packet.Data = d
		}
		return m
	}
	var second *PacketRec
	for _, o := range cands {
		if o.on == c.on && o.r != c.r {
			second = o.r
			break
		}
	}
	note := ""
	var m2 *packettypes.MsgRecvPacket
	switch mod(op.B, 3) {
	case 1:
		if second != nil {
			m2 = build(second, false)
			note = "two-genuine"
		}
	case 2:
		m2 = build(c.r, true)
		note = "genuine+forged"
	}
	// build the first message last so that both proofs are valid at the same client height
	m1 := build(c.r, false)
	if m1 == nil {
		return nil
	}
	if m2 == nil {
		cp := *m1
		m2 = &cp
		note = "genuine+duplicate"
	} else if note == "two-genuine" {
		m2 = build(second, false)
	}
	if m2 == nil {
		return nil
	}
	st := &Step{Op: op, Kind: "batch", Packet: &m1.Packet, Note: note, Batch: []packettypes.Packet{m1.Packet, m2.Packet}}
	st.Chain = on.Name
	st.Signer = signer.Addr.String()
	st.HBefore = on.Height
	st.Res = on.Deliver(signer, m1, m2)
	st.HAfter = on.Height
	st.OK = st.Res.Code == 0
	st.Time = on.BlockTime(on.Height).UnixNano()
	if st.OK {
		s.absorbEvents(on, st.Res.Events)
	}
	s.Label("batch:" + note)
	return s.record(st)
}
