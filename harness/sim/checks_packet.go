package sim

import (
	"bytes"
	"fmt"
	"sort"
	"strings"

	sdk "github.com/cosmos/cosmos-sdk/types"

	clienttypes "github.com/bianjieai/tibc-go/modules/tibc/core/02-client/types"
	packettypes "github.com/bianjieai/tibc-go/modules/tibc/core/04-packet/types"
	host "github.com/bianjieai/tibc-go/modules/tibc/core/24-host"
	ibctm "github.com/bianjieai/tibc-go/modules/tibc/light-clients/07-tendermint/types"

	"verifharness/world"
)

var ProtocolStores = []string{"tibc", "nft", "mt", "NFT"}

// DiffStores lists the keys of `store` on chain c that differ between two committed versions.
type KeyDiff struct {
	Key      string
	Old, New []byte
}

func DiffStore(c *world.Chain, store string, v1, v2 int64) []KeyDiff {
	a, b := c.Dump(store, v1), c.Dump(store, v2)
	var out []KeyDiff
	i, j := 0, 0
	for i < len(a) || j < len(b) {
		switch {
		case j >= len(b) || (i < len(a) && bytes.Compare(a[i].K, b[j].K) < 0):
			out = append(out, KeyDiff{string(a[i].K), a[i].V, nil})
			i++
		case i >= len(a) || bytes.Compare(a[i].K, b[j].K) > 0:
			out = append(out, KeyDiff{string(b[j].K), nil, b[j].V})
			j++
		default:
			if !bytes.Equal(a[i].V, b[j].V) {
				out = append(out, KeyDiff{string(a[i].K), a[i].V, b[j].V})
			}
			i++
			j++
		}
	}
	return out
}

func fmtDiff(d []KeyDiff) string {
	var parts []string
	for _, k := range d {
		parts = append(parts, fmt.Sprintf("%q:%x->%x", k.Key, trunc(k.Old), trunc(k.New)))
	}
	return strings.Join(parts, ", ")
}

func trunc(b []byte) []byte {
	if len(b) > 12 {
		return b[:12]
	}
	return b
}

// CheckAtomicity: a message that returned an error leaves the protocol stores untouched.
func CheckAtomicity(prop string) func(*Sim, *Step) *Violation {
	return func(s *Sim, st *Step) *Violation {
		if st.OK || st.HAfter <= st.HBefore || st.Chain == "" {
			return nil
		}
		c := s.W.Chains[st.Chain]
		s.Label("failed-msg")
		for _, store := range ProtocolStores {
			// the failing tx ran in block HBefore+1
			if d := DiffStore(c, store, st.HBefore, st.HBefore+1); len(d) != 0 {
				return &Violation{prop, "failed-msg-changed-" + store + "/" + st.Kind,
					fmt.Sprintf("step %s failed but store %s changed: %s", st.Describe(), store, fmtDiff(d))}
			}
		}
		return nil
	}
}

// hasConsensusAt: chain `on`, in the state committed at `version`, holds a consensus state of
// `of` at height h that really is of's header h.
func (s *Sim) hasConsensusAt(on, of string, h, version int64) bool {
	oc, ok := s.W.Chains[of]
	if !ok || h <= 0 || h > oc.Height {
		return false
	}
	c := s.W.Chains[on]
	bz := c.StoreGetAt(host.StoreKey, host.FullConsensusStateKey(of, clienttypes.NewHeight(0, uint64(h))), version)
	if len(bz) == 0 {
		return false
	}
	cs, err := clienttypes.UnmarshalConsensusState(c.App.AppCodec(), bz)
	if err != nil {
		return false
	}
	tm, ok := cs.(*ibctm.ConsensusState)
	if !ok {
		return false
	}
	return bytes.Equal(tm.Root.Hash, oc.Header(h).Header.AppHash)
}

// RecvTruth: the chain the message must be proven from had, in the state proven by proofHeight,
// committed exactly this packet, and `on` holds that height's consensus state.
func (s *Sim) RecvTruth(st *Step) bool {
	p := st.Packet
	prover := world.RecvProver(st.Chain, *p)
	if prover == st.Chain {
		return false
	}
	if !s.hasConsensusAt(st.Chain, prover, st.ProofHeight, st.HBefore) {
		return false
	}
	got := s.CommitmentAt(prover, p.SourceChain, p.DestinationChain, p.Sequence, st.ProofHeight-1)
	return len(got) != 0 && bytes.Equal(got, Sha(p.Data))
}

func (s *Sim) AckTruth(st *Step) bool {
	p := st.Packet
	prover := world.AckProver(st.Chain, *p)
	if prover == st.Chain {
		return false
	}
	if !s.hasConsensusAt(st.Chain, prover, st.ProofHeight, st.HBefore) {
		return false
	}
	got := s.AckAt(prover, p.SourceChain, p.DestinationChain, p.Sequence, st.ProofHeight-1)
	return len(got) != 0 && bytes.Equal(got, Sha(st.Ack))
}

func (s *Sim) CleanTruth(st *Step) bool {
	cp := st.Clean
	prover := cp.SourceChain
	if cp.DestinationChain == st.Chain && cp.RelayChain != "" {
		prover = cp.RelayChain
	}
	if prover == st.Chain {
		return false
	}
	if !s.hasConsensusAt(st.Chain, prover, st.ProofHeight, st.HBefore) {
		return false
	}
	pc := s.W.Chains[prover]
	bz := pc.StoreGetAt(host.StoreKey, host.CleanPacketCommitmentKey(cp.SourceChain, cp.DestinationChain), st.ProofHeight-1)
	return len(bz) == 8 && sdk.BigEndianToUint64(bz) == cp.Sequence
}

// CheckC01: inbound packets are authentic.
func CheckC01(s *Sim, st *Step) *Violation {
	if st.Kind != "recv" || st.Packet == nil {
		return nil
	}
	truth := s.RecvTruth(st)
	path := "direct"
	if st.Packet.RelayChain != "" {
		if st.Chain == st.Packet.RelayChain {
			path = "relay-hop"
		} else {
			path = "dest-with-relay"
		}
	}
	if st.Alter != "" {
		s.Label("alter:" + st.Alter)
		if st.ProofFrom != "" || st.Alter == "proof-trunc" || st.Alter == "proof-flip" {
			s.Label("adversarial-from-genuine")
		}
	}
	if st.OK {
		s.Label("accepted:" + path)
		if st.Alter == "" && !st.Replay {
			s.Label("accepted-genuine")
		}
		if !truth {
			return &Violation{"C01", "accepted-without-commitment/" + st.Alter + "/" + path,
				"receive accepted although the proving chain holds no such commitment at the proof height: " + st.Describe()}
		}
	} else {
		s.Label("rejected:" + path)
	}
	return nil
}

type ChanSeq struct {
	Chain, Src, Dst string
	Seq             uint64
}

// C02State tracks accepted receives.
type C02State struct {
	Accepted map[ChanSeq]int
}

func CheckC02(state *C02State) func(*Sim, *Step) *Violation {
	return func(s *Sim, st *Step) *Violation {
		if st.Kind == "batch" && st.OK {
			// every receive bundled into an accepted transaction was processed
			for _, p := range st.Batch {
				k := ChanSeq{st.Chain, p.SourceChain, p.DestinationChain, p.Sequence}
				state.Accepted[k]++
				if state.Accepted[k] > 1 {
					return &Violation{"C02", "delivered-twice", fmt.Sprintf("packet %v accepted %d times on %s (bundled receives): %s", k, state.Accepted[k], st.Chain, st.Describe())}
				}
			}
			return nil
		}
		if st.Kind != "recv" || st.Packet == nil {
			return nil
		}
		p := st.Packet
		k := ChanSeq{st.Chain, p.SourceChain, p.DestinationChain, p.Sequence}
		on := s.W.Chains[st.Chain]
		cleanBefore := s.CleanAt(st.Chain, p.SourceChain, p.DestinationChain, st.HBefore)
		if st.Replay || state.Accepted[k] > 0 {
			s.Label("resubmission")
			if st.Chain == p.RelayChain {
				s.Label("resubmission-on-relay")
			}
			if cleanBefore >= p.Sequence {
				s.Label("resubmission-after-clean")
			}
		}
		if st.OK {
			state.Accepted[k]++
			if state.Accepted[k] > 1 {
				return &Violation{"C02", "delivered-twice", fmt.Sprintf("packet %v accepted %d times on %s: %s", k, state.Accepted[k], st.Chain, st.Describe())}
			}
			return nil
		}
		// completeness for genuine packets
		if st.Alter != "" && st.Alter != "signer" && st.Alter != "height-old" {
			return nil
		}
		r := s.findPacket(p.SourceChain, p.DestinationChain, p.Sequence)
		if r == nil || r.Origin != "app" || !bytes.Equal(r.P.Data, p.Data) || r.P.Port != p.Port || r.P.RelayChain != p.RelayChain {
			return nil
		}
		if st.Chain != p.DestinationChain && st.Chain != p.RelayChain {
			return nil
		}
		if !s.RecvTruth(st) {
			return nil
		}
		if len(s.ReceiptAt(st.Chain, p.SourceChain, p.DestinationChain, p.Sequence, st.HBefore)) != 0 {
			return nil
		}
		// "cleaned" is decided by the sending chain's own clean point (the only place a clean can originate), not by
		// what the refusing chain believes
		srcClean := s.CleanAt(p.SourceChain, p.SourceChain, p.DestinationChain, s.W.Chains[p.SourceChain].Height)
		if srcClean >= p.Sequence || state.Accepted[k] > 0 {
			return nil
		}
		if st.Chain == p.RelayChain && !s.W.Links[st.Chain][p.DestinationChain] {
			s.Label("excluded:relay-does-not-know-dest")
			return nil
		}
		if !s.clientActive(on, world.RecvProver(st.Chain, *p), st) {
			return nil
		}
		if st.Res != nil && strings.Contains(st.Res.Log, "out of gas") {
			return nil
		}
		return &Violation{"C02", "genuine-packet-refused", "a committed, undelivered, uncleaned packet was refused at its next hop with a valid proof: " + st.Describe()}
	}
}

// clientActive: on's client for `of` was inside its trusting period when the step ran.
func (s *Sim) clientActive(on *world.Chain, of string, st *Step) bool {
	ctx, err := on.CtxAt(st.HBefore)
	if err != nil {
		return false
	}
	cs, ok := on.App.TIBCKeeper.ClientKeeper.GetClientState(ctx, of)
	if !ok {
		return false
	}
	tm, ok := cs.(*ibctm.ClientState)
	if !ok {
		return false
	}
	oc := s.W.Chains[of]
	latest := oc.BlockTime(int64(tm.LatestHeight.RevisionHeight))
	return st.Time-latest.UnixNano() < int64(tm.TrustingPeriod)
}

// C03State tracks acknowledgement processing.
type C03State struct {
	AckedOK map[ChanSeq]int
	AckHash map[ChanSeq][]byte
}

func CheckC03(state *C03State) func(*Sim, *Step) *Violation {
	return func(s *Sim, st *Step) *Violation {
		if st.Chain == "" {
			return nil
		}
		c := s.W.Chains[st.Chain]
		if st.Kind == "ack" && st.Packet != nil {
			p := st.Packet
			k := ChanSeq{st.Chain, p.SourceChain, p.DestinationChain, p.Sequence}
			if st.Alter != "" || st.Replay {
				s.Label("forged-or-duplicate-ack")
			}
			if st.OK {
				var a packettypes.Acknowledgement
				if a.Unmarshal(st.Ack) == nil {
					if _, isErr := a.Response.(*packettypes.Acknowledgement_Error); isErr {
						s.Label("processed-error-ack")
					}
				}
				held := s.CommitmentAt(st.Chain, p.SourceChain, p.DestinationChain, p.Sequence, st.HBefore)
				if len(held) == 0 || !bytes.Equal(held, Sha(p.Data)) {
					return &Violation{"C03", "ack-accepted-without-own-commitment/" + st.Alter, "ack accepted although this chain did not hold the commitment of that packet: " + st.Describe()}
				}
				if !s.AckTruth(st) {
					return &Violation{"C03", "ack-accepted-without-proven-ack/" + st.Alter, "ack accepted although the proving chain has not recorded that acknowledgement at the proof height: " + st.Describe()}
				}
				if left := s.CommitmentAt(st.Chain, p.SourceChain, p.DestinationChain, p.Sequence, st.HAfter); len(left) != 0 {
					return &Violation{"C03", "commitment-kept-after-ack", "commitment still present after the ack was processed: " + st.Describe()}
				}
				state.AckedOK[k]++
				if state.AckedOK[k] > 1 {
					return &Violation{"C03", "acked-twice", fmt.Sprintf("packet %v acknowledged %d times: %s", k, state.AckedOK[k], st.Describe())}
				}
			}
		}
		if st.Kind == "recv" && st.OK && st.Packet != nil {
			p := st.Packet
			was := world.AcksFromEvents(st.Res.Events)
			if st.Chain == p.DestinationChain {
				if len(was) != 1 {
					return &Violation{"C03", "no-ack-written", fmt.Sprintf("delivered packet wrote %d acknowledgements: %s", len(was), st.Describe())}
				}
			}
			for _, wa := range was {
				if len(wa.Ack) == 0 {
					return &Violation{"C03", "empty-ack", "empty acknowledgement written: " + st.Describe()}
				}
				stored := s.AckAt(st.Chain, p.SourceChain, p.DestinationChain, p.Sequence, st.HAfter)
				if !bytes.Equal(stored, Sha(wa.Ack)) {
					return &Violation{"C03", "stored-ack-differs", fmt.Sprintf("stored ack hash %x is not the hash of the announced ack %q: %s", stored, wa.Ack, st.Describe())}
				}
				if st.Chain == p.DestinationChain {
					switch p.Port {
					case PortMock:
						if string(wa.Ack) != "mock acknowledgement" {
							return &Violation{"C03", "ack-not-from-app", "mock app ack altered: " + st.Describe()}
						}
					case PortNFT, PortMT:
						var a packettypes.Acknowledgement
						if err := a.Unmarshal(wa.Ack); err != nil || a.Response == nil {
							return &Violation{"C03", "ack-not-from-app", "transfer app ack does not decode: " + st.Describe()}
						}
					}
				}
			}
		}
		// acknowledgements are never overwritten (only cleaning removes them)
		if st.HAfter > st.HBefore {
			for _, r := range s.Packets {
				k := ChanSeq{st.Chain, r.P.SourceChain, r.P.DestinationChain, r.P.Sequence}
				now := s.AckAt(st.Chain, k.Src, k.Dst, k.Seq, c.Height)
				prev := state.AckHash[k]
				if len(prev) != 0 {
					if len(now) == 0 {
						if s.CleanAt(st.Chain, k.Src, k.Dst, c.Height) < k.Seq {
							return &Violation{"C03", "ack-vanished", fmt.Sprintf("ack of %v disappeared without a clean: %s", k, st.Describe())}
						}
					} else if !bytes.Equal(prev, now) {
						return &Violation{"C03", "ack-overwritten", fmt.Sprintf("ack of %v changed from %x to %x: %s", k, prev, now, st.Describe())}
					}
				}
				if len(now) != 0 {
					state.AckHash[k] = now
				} else {
					delete(state.AckHash, k)
				}
			}
		}
		return nil
	}
}

// KeeperWriteAck exercises PacketKeeper.WriteAcknowledgement directly (async-ack path) on a
// branched context: empty acks and second writes must be refused.
func (s *Sim) KeeperWriteAck(op Op) *Violation {
	if len(s.Packets) == 0 {
		return nil
	}
	r := s.Packets[mod(op.A, len(s.Packets))]
	c := s.W.Chains[r.P.DestinationChain]
	if c == nil {
		return nil
	}
	ctx, _ := c.Branch()
	k := c.App.TIBCKeeper.PacketKeeper
	has := k.HasPacketAcknowledgement(ctx, r.P.SourceChain, r.P.DestinationChain, r.P.Sequence)
	var ack []byte
	switch mod(op.B, 4) {
	case 0:
		ack = nil
	case 1:
		ack = []byte{}
	case 2:
		ack = []byte{0x01}
	default:
		ack = bytes.Repeat([]byte{0x42}, 1024)
	}
	err := k.WriteAcknowledgement(ctx, r.P, ack)
	s.Label("keeper-writeack")
	if len(ack) == 0 && err == nil {
		return &Violation{"C03", "keeper-empty-ack-accepted", fmt.Sprintf("WriteAcknowledgement accepted an empty ack for %s", r.Key())}
	}
	if has && err == nil {
		return &Violation{"C03", "keeper-ack-overwritten", fmt.Sprintf("WriteAcknowledgement overwrote the ack of %s", r.Key())}
	}
	if err == nil {
		got, _ := k.GetPacketAcknowledgement(ctx, r.P.SourceChain, r.P.DestinationChain, r.P.Sequence)
		if !bytes.Equal(got, Sha(ack)) {
			return &Violation{"C03", "keeper-ack-hash", "stored ack hash is not sha256(ack)"}
		}
	}
	return nil
}

// ---- C09 --------------------------------------------------------------------------------------

type C09State struct {
	Sent map[string]uint64 // src>dst -> number of successful sends
	// per channel: did a failing send happen after the last success (by whom)
	lastOK    map[string]string
	failSince map[string]bool
}

func NewC09State() *C09State {
	return &C09State{Sent: map[string]uint64{}, lastOK: map[string]string{}, failSince: map[string]bool{}}
}

func CheckC09(state *C09State) func(*Sim, *Step) *Violation {
	return func(s *Sim, st *Step) *Violation {
		if st.Kind != "nftsend" && st.Kind != "mtsend" && st.Kind != "mocksend" {
			return nil
		}
		c := s.W.Chains[st.Chain]
		ch := st.Src + ">" + st.Dst
		if !st.OK {
			s.Label("failed-send:" + st.Note)
			state.failSince[ch] = true
			if st.HAfter > st.HBefore && st.Kind != "mocksend" {
				for _, store := range ProtocolStores {
					if d := DiffStore(c, store, st.HBefore, st.HBefore+1); len(d) != 0 {
						return &Violation{"C09", "failed-send-changed-" + store, fmt.Sprintf("failed send changed store %s: %s; %s", store, fmtDiff(d), st.Describe())}
					}
				}
			}
			if st.Kind == "mocksend" {
				if d := DiffStore(c, "tibc", st.HBefore, st.HAfter); len(d) != 0 {
					return &Violation{"C09", "failed-send-changed-tibc", fmt.Sprintf("failed keeper send changed the tibc store: %s; %s", fmtDiff(d), st.Describe())}
				}
			}
			return nil
		}
		s.Label("ok-send")
		// a send whose first hop (the relay chain if one is named, else the destination) is a chain this chain holds
		// no light client for must fail -- judged from the harness's own record of which clients exist
		firstHop := st.Dst
		if st.Relay != "" {
			firstHop = st.Relay
		}
		if !s.W.Links[st.Chain][firstHop] {
			return &Violation{"C09", "send-to-unknown-chain-accepted", fmt.Sprintf("%s holds no client for %q, yet the send was accepted: %s", short(st.Chain), firstHop, st.Describe())}
		}
		pkts := world.PacketsFromEvents(st.Res.Events)
		if len(pkts) != 1 {
			return &Violation{"C09", "announce-count", fmt.Sprintf("successful send announced %d packets: %s", len(pkts), st.Describe())}
		}
		p := pkts[0]
		want := state.Sent[ch] + 1
		if p.SourceChain != st.Src || p.DestinationChain != st.Dst || p.RelayChain != st.Relay || p.Port != st.Port {
			return &Violation{"C09", "announce-fields", fmt.Sprintf("announced packet %+v does not match the request: %s", p, st.Describe())}
		}
		if p.Sequence != want {
			return &Violation{"C09", "sequence-gap", fmt.Sprintf("channel %s: got sequence %d, want %d: %s", ch, p.Sequence, want, st.Describe())}
		}
		state.Sent[ch] = want
		if state.failSince[ch] && state.lastOK[ch] != "" && state.lastOK[ch] != st.Sender {
			s.Label("fail-between-successes-different-users")
		}
		state.failSince[ch] = false
		state.lastOK[ch] = st.Sender
		got := s.CommitmentAt(st.Chain, p.SourceChain, p.DestinationChain, p.Sequence, st.HAfter)
		if !bytes.Equal(got, Sha(p.Data)) {
			return &Violation{"C09", "commitment-mismatch", fmt.Sprintf("commitment %x is not sha256 of the announced data: %s", got, st.Describe())}
		}
		// exactly one new commitment, counter+1, nothing else in the tibc store
		first := st.HBefore + 1
		d := DiffStore(c, "tibc", st.HBefore, first)
		wantKeys := map[string]bool{
			string(host.NextSequenceSendKey(p.SourceChain, p.DestinationChain)):             false,
			string(host.PacketCommitmentKey(p.SourceChain, p.DestinationChain, p.Sequence)): false,
		}
		for _, kd := range d {
			if _, ok := wantKeys[kd.Key]; !ok {
				return &Violation{"C09", "extra-write", fmt.Sprintf("send touched unexpected key %q: %s", kd.Key, st.Describe())}
			}
			wantKeys[kd.Key] = true
		}
		for k, seen := range wantKeys {
			if !seen {
				return &Violation{"C09", "missing-write", fmt.Sprintf("send did not write %q: %s", k, st.Describe())}
			}
		}
		if next := c.App.TIBCKeeper.PacketKeeper.GetNextSequenceSend(c.Ctx(), p.SourceChain, p.DestinationChain); next != want+1 {
			return &Violation{"C09", "next-sequence", fmt.Sprintf("next sequence is %d, want %d", next, want+1)}
		}
		return nil
	}
}

// ---- C10 --------------------------------------------------------------------------------------

type C10State struct {
	Acked   map[string]map[uint64]bool // chain|src>dst -> acked sequences (accepted ack steps)
	CleanPt map[string]uint64          // chain|src>dst -> clean point seen in the store
}

func NewC10State() *C10State {
	return &C10State{Acked: map[string]map[uint64]bool{}, CleanPt: map[string]uint64{}}
}

func CheckC10(state *C10State) func(*Sim, *Step) *Violation {
	return func(s *Sim, st *Step) *Violation {
		if st.Chain == "" || st.HAfter <= st.HBefore {
			return nil
		}
		c := s.W.Chains[st.Chain]
		// bookkeeping of accepted acks
		if st.Kind == "ack" && st.OK && st.Packet != nil {
			k := st.Chain + "|" + st.Packet.SourceChain + ">" + st.Packet.DestinationChain
			if state.Acked[k] == nil {
				state.Acked[k] = map[uint64]bool{}
			}
			state.Acked[k][st.Packet.Sequence] = true
		}
		// refused for good
		if (st.Kind == "recv" || st.Kind == "ack") && st.Packet != nil {
			p := st.Packet
			cp := s.CleanAt(st.Chain, p.SourceChain, p.DestinationChain, st.HBefore)
			if cp >= p.Sequence {
				s.Label("msg-at-or-below-clean-point")
				if st.OK {
					return &Violation{"C10", "accepted-below-clean-point/" + st.Kind, fmt.Sprintf("%s with sequence %d accepted although the clean point is %d: %s", st.Kind, p.Sequence, cp, st.Describe())}
				}
			}
		}
		if st.Kind == "clean" && st.Clean != nil {
			n := st.Clean.Sequence
			src, dst := st.Chain, st.Clean.DestinationChain
			k := st.Chain + "|" + src + ">" + dst
			cp := s.CleanAt(st.Chain, src, dst, st.HBefore)
			var maxAck uint64
			for q := range state.Acked[k] {
				if q > maxAck {
					maxAck = q
				}
			}
			allAcked := true
			firstUnacked := uint64(0)
			for q := cp + 1; q <= n && q <= s.MaxSeq(src, dst)+1; q++ {
				if !state.Acked[k][q] {
					allAcked = false
					firstUnacked = q
					break
				}
			}
			if !allAcked {
				s.Label("clean-past-unacked")
			}
			if st.OK {
				s.Label("clean-accepted")
				switch {
				case n <= cp:
					return &Violation{"C10", "clean-not-above-clean-point", fmt.Sprintf("clean N=%d accepted with clean point %d: %s", n, cp, st.Describe())}
				case n > maxAck:
					return &Violation{"C10", "clean-above-max-acked", fmt.Sprintf("clean N=%d accepted although highest acknowledged sequence is %d: %s", n, maxAck, st.Describe())}
				case !allAcked:
					return &Violation{"C10", "clean-past-unacked-packet", fmt.Sprintf("clean N=%d accepted although sequence %d is not acknowledged: %s", n, firstUnacked, st.Describe())}
				}
				if v := s.checkCleanEffects(st, src, dst, n, cp); v != nil {
					return v
				}
			}
		}
		if st.Kind == "recvclean" && st.Clean != nil {
			if st.Alter != "" {
				s.Label("recvclean-alter:" + st.Alter)
			}
			if st.OK {
				s.Label("recvclean-accepted")
				if !s.CleanTruth(st) {
					return &Violation{"C10", "recvclean-without-proof-of-clean-point/" + st.Alter, "receive-clean accepted although the proving chain's clean point is not N at the proof height: " + st.Describe()}
				}
				cp := s.CleanAt(st.Chain, st.Clean.SourceChain, st.Clean.DestinationChain, st.HBefore)
				if v := s.checkCleanEffects(st, st.Clean.SourceChain, st.Clean.DestinationChain, st.Clean.Sequence, cp); v != nil {
					return v
				}
			}
		}
		// monotone clean points, every channel on this chain
		for _, ch := range s.channels() {
			k := st.Chain + "|" + ch[0] + ">" + ch[1]
			now := s.CleanAt(st.Chain, ch[0], ch[1], c.Height)
			if now < state.CleanPt[k] {
				return &Violation{"C10", "clean-point-decreased", fmt.Sprintf("clean point of %s went from %d to %d: %s", k, state.CleanPt[k], now, st.Describe())}
			}
			state.CleanPt[k] = now
		}
		return nil
	}
}

// checkCleanEffects: an accepted clean of channel (src,dst) up to n on st.Chain removes exactly the
// receipts and acks in (cpOld, n], sets the clean point to n, and touches nothing else.
func (s *Sim) checkCleanEffects(st *Step, src, dst string, n, cpOld uint64) *Violation {
	c := s.W.Chains[st.Chain]
	first := st.HBefore + 1
	cleanKey := string(host.CleanPacketCommitmentKey(src, dst))
	rcptPrefix := host.PacketReceiptPrefixPath(src, dst) + "/"
	ackPrefix := host.PacketAcknowledgementPrefixPath(src, dst) + "/"
	sawClean := false
	for _, kd := range DiffStore(c, "tibc", st.HBefore, first) {
		switch {
		case kd.Key == cleanKey:
			sawClean = true
			if len(kd.New) != 8 || sdk.BigEndianToUint64(kd.New) != n {
				return &Violation{"C10", "clean-point-value", fmt.Sprintf("clean point written as %x, want %d: %s", kd.New, n, st.Describe())}
			}
		case strings.HasPrefix(kd.Key, rcptPrefix) || strings.HasPrefix(kd.Key, ackPrefix):
			var q uint64
			fmt.Sscanf(kd.Key[strings.LastIndex(kd.Key, "/")+1:], "%d", &q)
			if kd.New != nil || q <= cpOld || q > n {
				return &Violation{"C10", "clean-touched-live-state", fmt.Sprintf("clean N=%d (old point %d) changed %q: %s", n, cpOld, kd.Key, st.Describe())}
			}
			s.Label("clean-removed-entries")
		default:
			return &Violation{"C10", "clean-touched-other-key", fmt.Sprintf("clean changed unrelated key %q: %s", kd.Key, st.Describe())}
		}
	}
	if !sawClean {
		return &Violation{"C10", "clean-point-not-set", "accepted clean did not move the clean point: " + st.Describe()}
	}
	// nothing at or below n is left
	for _, kv := range c.Dump("tibc", first) {
		k := string(kv.K)
		if strings.HasPrefix(k, rcptPrefix) || strings.HasPrefix(k, ackPrefix) {
			var q uint64
			fmt.Sscanf(k[strings.LastIndex(k, "/")+1:], "%d", &q)
			if q <= n {
				return &Violation{"C10", "clean-left-entry", fmt.Sprintf("entry %q survives a clean up to %d: %s", k, n, st.Describe())}
			}
		}
	}
	return nil
}

// SortedLabels renders labels deterministically.
func SortedLabels(m map[string]int) []string {
	ks := make([]string, 0, len(m))
	for k := range m {
		ks = append(ks, k)
	}
	sort.Strings(ks)
	out := make([]string, 0, len(ks))
	for _, k := range ks {
		out = append(out, fmt.Sprintf("%s=%d", k, m[k]))
	}
	return out
}
