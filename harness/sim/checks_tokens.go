package sim

import (
	"fmt"
	"math/big"
	"sort"
	"strings"

	mttransfer "github.com/bianjieai/tibc-go/modules/tibc/apps/mt_transfer/types"
	nfttransfer "github.com/bianjieai/tibc-go/modules/tibc/apps/nft_transfer/types"
	packettypes "github.com/bianjieai/tibc-go/modules/tibc/core/04-packet/types"
	host "github.com/bianjieai/tibc-go/modules/tibc/core/24-host"

	"verifharness/world"
)

// Ident is the identity of a natively minted asset: where it was minted, under which class, which id.
type Ident struct {
	Origin, Base, ID string
}

func (i Ident) String() string {
	return fmt.Sprintf("%s:%s/%s", short(i.Origin), shortClass(i.Base), shortClass(i.ID))
}

// Full is an unabbreviated key (chain names never contain '#').
func (i Ident) Full() string { return i.Origin + ":" + i.Base + ":" + i.ID }

// ParsePath splits a full class path ("nft/A/B/base" or "base") into trail and base.
// holder is the chain on which a bare class is native.
func ParsePath(prefix, path, holder string) (trail []string, base string) {
	parts := strings.Split(path, "/")
	if len(parts) >= 4 && parts[0] == prefix {
		return parts[1 : len(parts)-1], parts[len(parts)-1]
	}
	return []string{holder}, path
}

// TokenFlight is a transfer packet the harness follows.
type TokenFlight struct {
	Rec      *PacketRec
	Kind     string // nft | mt
	Ident    Ident
	Trail    []string // trail of the class named in the packet (as seen by the sender)
	Away     bool
	Amount   uint64
	Sender   string
	Receiver string
	Status   string // inflight | delivered | refunded
	ErrAcked bool   // an error ack has been written somewhere (still in flight until refunded)
	SendDiff tokenDelta
}

// tokenDelta is the change of one chain's token snapshot in one step.
type tokenDelta struct {
	NFTRemoved, NFTAdded []NFTInst
	MTBal                map[string]*big.Int // class|id|owner -> delta
	MTSup                map[string]*big.Int // class|id -> delta
}

func (d tokenDelta) Empty() bool {
	return len(d.NFTRemoved) == 0 && len(d.NFTAdded) == 0 && len(d.MTBal) == 0 && len(d.MTSup) == 0
}

func (d tokenDelta) String() string {
	var parts []string
	for _, n := range d.NFTRemoved {
		parts = append(parts, fmt.Sprintf("-nft %s/%s@%s", shortClass(n.Class), n.ID, shortAddr(n.Owner)))
	}
	for _, n := range d.NFTAdded {
		parts = append(parts, fmt.Sprintf("+nft %s/%s@%s", shortClass(n.Class), n.ID, shortAddr(n.Owner)))
	}
	for _, k := range sortedBig(d.MTBal) {
		parts = append(parts, fmt.Sprintf("bal %s %+d", k, d.MTBal[k]))
	}
	for _, k := range sortedBig(d.MTSup) {
		parts = append(parts, fmt.Sprintf("sup %s %+d", k, d.MTSup[k]))
	}
	return strings.Join(parts, "; ")
}

func sortedBig(m map[string]*big.Int) []string {
	ks := make([]string, 0, len(m))
	for k := range m {
		ks = append(ks, k)
	}
	sort.Strings(ks)
	return ks
}

func diffTokens(a, b TokenSnap) tokenDelta {
	d := tokenDelta{MTBal: map[string]*big.Int{}, MTSup: map[string]*big.Int{}}
	am := map[string]NFTInst{}
	for _, n := range a.NFTs {
		am[n.Class+"|"+n.ID] = n
	}
	bm := map[string]NFTInst{}
	for _, n := range b.NFTs {
		bm[n.Class+"|"+n.ID] = n
	}
	for k, n := range am {
		if o, ok := bm[k]; !ok || o.Owner != n.Owner {
			d.NFTRemoved = append(d.NFTRemoved, n)
		}
	}
	for k, n := range bm {
		if o, ok := am[k]; !ok || o.Owner != n.Owner {
			d.NFTAdded = append(d.NFTAdded, n)
		}
	}
	sort.Slice(d.NFTRemoved, func(i, j int) bool {
		return d.NFTRemoved[i].Class+d.NFTRemoved[i].ID < d.NFTRemoved[j].Class+d.NFTRemoved[j].ID
	})
	sort.Slice(d.NFTAdded, func(i, j int) bool {
		return d.NFTAdded[i].Class+d.NFTAdded[i].ID < d.NFTAdded[j].Class+d.NFTAdded[j].ID
	})
	acc := func(m map[string]*big.Int, k string, v uint64, sign int64) {
		if m[k] == nil {
			m[k] = new(big.Int)
		}
		x := new(big.Int).SetUint64(v)
		if sign < 0 {
			x.Neg(x)
		}
		m[k].Add(m[k], x)
	}
	for _, x := range a.MTBals {
		acc(d.MTBal, x.Class+"|"+x.ID+"|"+x.Owner, x.Amt, -1)
	}
	for _, x := range b.MTBals {
		acc(d.MTBal, x.Class+"|"+x.ID+"|"+x.Owner, x.Amt, +1)
	}
	for _, x := range a.MTSups {
		acc(d.MTSup, x.Class+"|"+x.ID, x.Supply, -1)
	}
	for _, x := range b.MTSups {
		acc(d.MTSup, x.Class+"|"+x.ID, x.Supply, +1)
	}
	for k, v := range d.MTBal {
		if v.Sign() == 0 {
			delete(d.MTBal, k)
		}
	}
	for k, v := range d.MTSup {
		if v.Sign() == 0 {
			delete(d.MTSup, k)
		}
	}
	return d
}

// TokenState is the harness's ledger of native assets and transfer packets.
type TokenState struct {
	Prop    string
	NFTLive map[Ident]bool // natively minted, not burned by a holder
	// NFTInst: what every instance (chain|class|id) the ledger has seen come into existence represents, by
	// provenance (native mint, or voucher minted against a delivered flight) -- never by reading class strings,
	// which a user can choose freely for native classes.
	NFTInst  map[string]InstInfo
	MTMinted map[Ident]*big.Int // native mint total
	MTBurned map[Ident]*big.Int
	Flights  map[string]*TokenFlight // packet key -> flight
	// VoucherBurned: units of vouchers burned by their holders through the mt module, per backing
	// escrow node (they stay locked upstream for good).
	VoucherBurned map[string]*big.Int
	Tainted       bool // a hostile packet or an excluded shape appeared; global sums are no longer asserted
	CheckSums     bool
	CheckStep     bool
	// NoteC06 makes refund-exactness violations be reported under C06.
}

// InstInfo is the native identity an instance represents and the chains it travelled (origin first, holder last).
type InstInfo struct {
	Ident Ident
	Trail []string
}

func instKey(chain, class, id string) string { return chain + "|" + class + "|" + id }

// modelPath is the class path an instance with this provenance carries in packets and class traces.
func (i InstInfo) modelPath() string {
	if len(i.Trail) <= 1 {
		return i.Ident.Base
	}
	return "nft/" + strings.Join(i.Trail, "/") + "/" + i.Ident.Base
}

func NewTokenState(prop string) *TokenState {
	return &TokenState{Prop: prop, NFTInst: map[string]InstInfo{}, NFTLive: map[Ident]bool{}, MTMinted: map[Ident]*big.Int{}, MTBurned: map[Ident]*big.Int{},
		Flights: map[string]*TokenFlight{}, VoucherBurned: map[string]*big.Int{}, CheckSums: true, CheckStep: true}
}

func ackIsError(ack []byte) (isErr bool, ok bool) {
	var a packettypes.Acknowledgement
	if err := a.Unmarshal(ack); err != nil || a.Response == nil {
		return false, false
	}
	_, isErr = a.Response.(*packettypes.Acknowledgement_Error)
	return isErr, true
}

func (ts *TokenState) viol(sig, msg string) *Violation {
	return &Violation{ts.Prop, sig, msg}
}

// identOfNFT resolves an instance on a chain to its native identity.
func identOfNFT(c *world.Chain, class, id string) (Ident, []string, bool) {
	path, ok := NFTClassPath(c, class)
	if !ok {
		return Ident{}, nil, false
	}
	trail, base := ParsePath("nft", path, c.Name)
	return Ident{trail[0], base, id}, trail, true
}

func identOfMT(c *world.Chain, class, id string) (Ident, []string, bool) {
	path, ok := MTClassPath(c, class)
	if !ok {
		return Ident{}, nil, false
	}
	trail, base := ParsePath("mt", path, c.Name)
	return Ident{trail[0], base, id}, trail, true
}

// CheckTokens returns the per-step checker implementing the ledger.
func CheckTokens(ts *TokenState) func(*Sim, *Step) *Violation {
	return func(s *Sim, st *Step) *Violation {
		if st.Chain == "" || st.HAfter <= st.HBefore {
			return nil
		}
		c := s.W.Chains[st.Chain]
		before := SnapTokensAt(c, st.HBefore)
		after := SnapTokensAt(c, st.HAfter)
		delta := diffTokens(before, after)
		if !st.OK {
			if !delta.Empty() {
				return ts.viol("failed-msg-changed-tokens/"+st.Kind, fmt.Sprintf("failed step changed the token state: %s; %s", delta, st.Describe()))
			}
			return nil
		}
		switch st.Kind {
		case "user":
			return ts.onUser(s, st, c, delta)
		case "nftsend", "mtsend":
			return ts.onSend(s, st, c, delta)
		case "recv":
			return ts.onRecv(s, st, c, before, delta)
		case "ack":
			return ts.onAck(s, st, c, before, delta)
		default:
			if !delta.Empty() {
				return ts.viol("tokens-changed-by-"+st.Kind, fmt.Sprintf("a %s step changed the token state: %s; %s", st.Kind, delta, st.Describe()))
			}
		}
		return nil
	}
}

func (ts *TokenState) onUser(s *Sim, st *Step, c *world.Chain, delta tokenDelta) *Violation {
	switch st.Note {
	case "nftmint":
		if strings.HasPrefix(st.Class, "tibc-") {
			return ts.viol("voucher-minted-by-user", "a user transaction created a token in a voucher class (vouchers may only come into existence against a delivered packet): "+st.Describe())
		}
		if contains(s.NFTClasses[c.Name], st.Class) {
			id := Ident{c.Name, st.Class, st.ID}
			ts.NFTLive[id] = true
			ts.NFTInst[instKey(c.Name, st.Class, st.ID)] = InstInfo{id, []string{c.Name}}
		}
	case "nftburn":
		if info, ok := ts.NFTInst[instKey(c.Name, st.Class, st.ID)]; ok {
			delete(ts.NFTLive, info.Ident)
			s.Label("holder-burned-nft")
		}
	case "mtmint":
		if strings.HasPrefix(st.Class, "tibc-") {
			return ts.viol("voucher-minted-by-user", "a user transaction created units in a voucher class (voucher units may only come into existence against a delivered packet): "+st.Describe())
		}
		id := Ident{c.Name, st.Class, st.ID}
		if ts.MTMinted[id] == nil {
			ts.MTMinted[id] = new(big.Int)
		}
		ts.MTMinted[id].Add(ts.MTMinted[id], new(big.Int).SetUint64(st.Amount))
	case "mtburn":
		if id, trail, ok := identOfMT(c, st.Class, st.ID); ok {
			if ts.MTBurned[id] == nil {
				ts.MTBurned[id] = new(big.Int)
			}
			ts.MTBurned[id].Add(ts.MTBurned[id], new(big.Int).SetUint64(st.Amount))
			if len(trail) > 1 {
				pk := id.Full() + "#" + strings.Join(trail[:len(trail)-1], "/")
				if ts.VoucherBurned[pk] == nil {
					ts.VoucherBurned[pk] = new(big.Int)
				}
				ts.VoucherBurned[pk].Add(ts.VoucherBurned[pk], new(big.Int).SetUint64(st.Amount))
				s.Label("voucher-units-burned-by-holder")
			}
		}
	}
	return nil
}

func (ts *TokenState) onSend(s *Sim, st *Step, c *world.Chain, delta tokenDelta) *Violation {
	if st.Packet == nil {
		return ts.viol("send-without-packet", "successful transfer announced no packet: "+st.Describe())
	}
	r := s.findPacket(st.Packet.SourceChain, st.Packet.DestinationChain, st.Packet.Sequence)
	if r == nil {
		return nil
	}
	fl := &TokenFlight{Rec: r, Status: "inflight", Sender: st.Sender, Receiver: st.Receiver, SendDiff: delta}
	// what the sender held (identity from the sender-side class)
	if st.Kind == "nftsend" {
		fl.Kind = "nft"
		var d nfttransfer.NonFungibleTokenPacketData
		if err := d.Unmarshal(st.Packet.Data); err != nil {
			return ts.viol("packet-data-undecodable", "nft packet data does not decode: "+st.Describe())
		}
		// identity from the class the sender held (resolved before the send changed anything)
		ctxChain := c
		path, ok := NFTClassPath(ctxChain, st.Class)
		if !ok {
			return nil
		}
		info, tracked := ts.NFTInst[instKey(c.Name, st.Class, st.ID)]
		if !tracked {
			ts.Tainted = true
			s.Label("untracked-instance-sent")
			return nil
		}
		// towards the origin iff the destination is the chain this instance arrived from
		wantAway := len(info.Trail) == 1 || info.Trail[len(info.Trail)-2] != st.Packet.DestinationChain
		fl.Ident, fl.Trail, fl.Away = info.Ident, info.Trail, wantAway
		if len(info.Trail) == 1 && strings.Contains(st.Class, "/") {
			s.Label("native-class-with-slash-sent")
		}
		if d.AwayFromOrigin && !wantAway {
			// a return leg handled as one more hop away: nothing is burned or released, the token is escrowed once
			// more (C06's concern, not a duplication); the ledger follows what the chain did
			s.Label("return-leg-treated-as-away")
			wantAway = true
			fl.Away = true
		}
		if d.AwayFromOrigin != wantAway {
			kind := "voucher"
			switch {
			case len(info.Trail) == 1:
				kind = "native-class"
			case strings.Contains(info.Ident.Base, "/"):
				kind = "voucher-of-slash-class"
			}
			ts.Tainted = true // what follows from it (wrong release, duplicate) is the same finding
			return ts.viol("direction-wrong/"+kind, fmt.Sprintf("instance representing %v (route so far %v) sent to %s was marked away_from_origin=%v: %s", info.Ident, info.Trail, short(st.Packet.DestinationChain), d.AwayFromOrigin, st.Describe()))
		}
		plainBase := !strings.Contains(info.Ident.Base, "/")
		if d.Class != path || (plainBase && d.Class != info.modelPath()) || d.Id != st.ID || d.Sender != st.Sender || d.Receiver != st.Receiver {
			return ts.viol("packet-data-mismatch", fmt.Sprintf("packet data %+v does not describe the requested transfer (class path by provenance %q): %s", d, info.modelPath(), st.Describe()))
		}
		// exactly this token left the sender: either to escrow or burned; nothing else changed
		okShape := len(delta.NFTRemoved) == 1 && delta.NFTRemoved[0].Class == st.Class && delta.NFTRemoved[0].ID == st.ID &&
			delta.NFTRemoved[0].Owner == st.Sender && len(delta.MTBal) == 0 && len(delta.MTSup) == 0
		if okShape {
			switch len(delta.NFTAdded) {
			case 0: // burned: only a voucher going back where it came from
				okShape = !wantAway
			case 1: // escrowed: anything moving away from its origin
				a := delta.NFTAdded[0]
				okShape = wantAway && a.Class == st.Class && a.ID == st.ID && a.Owner == NFTEscrow
			default:
				okShape = false
			}
		}
		if !okShape {
			return ts.viol("send-delta", fmt.Sprintf("nft send changed tokens unexpectedly: %s; %s", delta, st.Describe()))
		}
	} else {
		fl.Kind = "mt"
		var d mttransfer.MultiTokenPacketData
		if err := d.Unmarshal(st.Packet.Data); err != nil {
			return ts.viol("packet-data-undecodable", "mt packet data does not decode: "+st.Describe())
		}
		path, ok := MTClassPath(c, st.Class)
		if !ok {
			return nil
		}
		trail, base := ParsePath("mt", path, c.Name)
		fl.Ident, fl.Trail, fl.Away, fl.Amount = Ident{trail[0], base, st.ID}, trail, d.AwayFromOrigin, st.Amount
		if d.Class != path || d.Id != st.ID || d.Sender != st.Sender || d.Receiver != st.Receiver || d.Amount != st.Amount {
			return ts.viol("packet-data-mismatch", fmt.Sprintf("packet data %+v does not describe the requested transfer: %s", d, st.Describe()))
		}
		amt := new(big.Int).SetUint64(st.Amount)
		neg := new(big.Int).Neg(amt)
		kS := st.Class + "|" + st.ID + "|" + st.Sender
		kE := st.Class + "|" + st.ID + "|" + MTEscrow
		okShape := len(delta.NFTAdded) == 0 && len(delta.NFTRemoved) == 0 && delta.MTBal[kS] != nil && delta.MTBal[kS].Cmp(neg) == 0
		if st.Amount == 0 {
			// a zero-unit transfer moves nothing (the receiver will answer it with an error ack)
			okShape = delta.Empty()
			s.Label("zero-amount-send")
		} else if okShape {
			if e, locked := delta.MTBal[kE]; locked {
				okShape = e.Cmp(amt) == 0 && len(delta.MTBal) == 2 && len(delta.MTSup) == 0
			} else {
				sup := delta.MTSup[st.Class+"|"+st.ID]
				okShape = len(delta.MTBal) == 1 && len(delta.MTSup) == 1 && sup != nil && sup.Cmp(neg) == 0
			}
		}
		if !okShape {
			return ts.viol("send-delta", fmt.Sprintf("mt send changed tokens unexpectedly: %s; %s", delta, st.Describe()))
		}
	}
	ts.Flights[r.Key()] = fl
	if len(fl.Trail) >= 2 {
		s.Label("voucher-sent-on")
	}
	return nil
}

func (ts *TokenState) onRecv(s *Sim, st *Step, c *world.Chain, before TokenSnap, delta tokenDelta) *Violation {
	p := st.Packet
	if p == nil {
		return nil
	}
	isDest := st.Chain == p.DestinationChain
	was := world.AcksFromEvents(st.Res.Events)
	errAck := false
	if len(was) == 1 {
		errAck, _ = ackIsError(was[0].Ack)
	}
	fl := ts.Flights[fmt.Sprintf("%s/%s/%d", p.SourceChain, p.DestinationChain, p.Sequence)]
	if !isDest || (p.Port != PortNFT && p.Port != PortMT) {
		if !delta.Empty() {
			return ts.viol("tokens-changed-on-relay-or-foreign-port", fmt.Sprintf("receive on %s changed tokens: %s; %s", short(st.Chain), delta, st.Describe()))
		}
		if fl != nil && errAck {
			fl.ErrAcked = true
		}
		return nil
	}
	if errAck {
		s.Label("error-acked-receive")
		if !delta.Empty() {
			return ts.viol("error-ack-with-token-effects", fmt.Sprintf("receive answered with an error ack changed tokens: %s; %s", delta, st.Describe()))
		}
		if fl != nil {
			fl.ErrAcked = true
		}
		return nil
	}
	// success ack on the destination
	if fl == nil || !bytesEq(fl.Rec.P.Data, p.Data) || fl.Rec.P.Port != p.Port {
		// not a transfer the harness follows (hostile or re-ported packet): sums can no longer be asserted
		ts.Tainted = true
		s.Label("untracked-transfer-delivered")
		return nil
	}
	fl.Status = "delivered"
	s.Label("transfer-delivered")
	rcv := fl.Receiver
	if fl.Kind == "nft" {
		if fl.Away {
			// a voucher comes into existence for exactly the receiver, class = path of sender class + this chain
			if len(delta.NFTRemoved) != 0 || len(delta.NFTAdded) != 1 || len(delta.MTBal) != 0 || len(delta.MTSup) != 0 {
				return ts.viol("recv-delta", fmt.Sprintf("away receive changed tokens unexpectedly: %s; %s", delta, st.Describe()))
			}
			a := delta.NFTAdded[0]
			info := InstInfo{fl.Ident, append(append([]string{}, fl.Trail...), c.Name)}
			path, ok := NFTClassPath(c, a.Class)
			plainBase := !strings.Contains(fl.Ident.Base, "/")
			if !ok || !strings.HasPrefix(a.Class, "tibc-") || (plainBase && path != info.modelPath()) || a.ID != fl.Ident.ID || a.Owner != rcv {
				return ts.viol("voucher-mismatch", fmt.Sprintf("voucher %+v (class path %q) does not represent %v via %v for %s: %s", a, path, fl.Ident, info.Trail, shortAddr(rcv), st.Describe()))
			}
			ts.NFTInst[instKey(c.Name, a.Class, a.ID)] = info
			for _, n := range before.NFTs {
				if n.Class == a.Class && n.ID == a.ID {
					return ts.viol("voucher-reminted", "voucher existed before: "+st.Describe())
				}
			}
		} else {
			// escrow released for exactly this identity to exactly the receiver
			if len(delta.NFTRemoved) != 1 || len(delta.NFTAdded) != 1 || len(delta.MTBal) != 0 || len(delta.MTSup) != 0 {
				return ts.viol("recv-delta", fmt.Sprintf("back receive changed tokens unexpectedly: %s; %s", delta, st.Describe()))
			}
			r, a := delta.NFTRemoved[0], delta.NFTAdded[0]
			locked, ok := ts.NFTInst[instKey(c.Name, r.Class, r.ID)]
			wantTrail := fl.Trail[:len(fl.Trail)-1]
			if !ok || r.Owner != NFTEscrow || r.Class != a.Class || r.ID != a.ID || a.Owner != rcv || locked.Ident != fl.Ident ||
				strings.Join(locked.Trail, "/") != strings.Join(wantTrail, "/") {
				return ts.viol("escrow-release-mismatch", fmt.Sprintf("released %+v -> %+v (locked instance represents %v via %v) for a returning voucher of %v via %v: %s", r, a, locked.Ident, locked.Trail, fl.Ident, fl.Trail, st.Describe()))
			}
		}
		return nil
	}
	// mt
	amt := new(big.Int).SetUint64(fl.Amount)
	if len(delta.NFTAdded) != 0 || len(delta.NFTRemoved) != 0 {
		return ts.viol("recv-delta", fmt.Sprintf("mt receive changed nfts: %s; %s", delta, st.Describe()))
	}
	if fl.Away {
		// supply of exactly one voucher class grows by amt and the receiver's balance by amt
		if len(delta.MTSup) != 1 || len(delta.MTBal) != 1 {
			return ts.viol("recv-delta", fmt.Sprintf("away mt receive changed tokens unexpectedly: %s; %s", delta, st.Describe()))
		}
		for k, v := range delta.MTSup {
			parts := strings.Split(k, "|")
			id, trail, ok := identOfMT(c, parts[0], parts[1])
			wantTrail := append(append([]string{}, fl.Trail...), c.Name)
			if !ok || id != fl.Ident || strings.Join(trail, "/") != strings.Join(wantTrail, "/") || v.Cmp(amt) != 0 {
				return ts.viol("voucher-mismatch", fmt.Sprintf("mt voucher supply change %s %v does not represent %v x%d: %s", k, v, fl.Ident, fl.Amount, st.Describe()))
			}
			b := delta.MTBal[k+"|"+rcv]
			if b == nil || b.Cmp(amt) != 0 {
				return ts.viol("voucher-mismatch", fmt.Sprintf("receiver balance change wrong: %s; %s", delta, st.Describe()))
			}
		}
	} else {
		if len(delta.MTSup) != 0 || len(delta.MTBal) != 2 {
			return ts.viol("recv-delta", fmt.Sprintf("back mt receive changed tokens unexpectedly: %s; %s", delta, st.Describe()))
		}
		neg := new(big.Int).Neg(amt)
		found := false
		for k, v := range delta.MTBal {
			parts := strings.Split(k, "|")
			if parts[2] != MTEscrow {
				continue
			}
			id, trail, ok := identOfMT(c, parts[0], parts[1])
			wantTrail := fl.Trail[:len(fl.Trail)-1]
			b := delta.MTBal[parts[0]+"|"+parts[1]+"|"+rcv]
			if !ok || id != fl.Ident || strings.Join(trail, "/") != strings.Join(wantTrail, "/") || v.Cmp(neg) != 0 || b == nil || b.Cmp(amt) != 0 {
				return ts.viol("escrow-release-mismatch", fmt.Sprintf("mt escrow release %s does not match flight %v x%d to %s: %s", delta, fl.Ident, fl.Amount, shortAddr(rcv), st.Describe()))
			}
			found = true
		}
		if !found {
			return ts.viol("escrow-release-mismatch", fmt.Sprintf("no escrow release in %s: %s", delta, st.Describe()))
		}
	}
	return nil
}

func bytesEq(a, b []byte) bool { return string(a) == string(b) }

func (ts *TokenState) onAck(s *Sim, st *Step, c *world.Chain, before TokenSnap, delta tokenDelta) *Violation {
	p := st.Packet
	if p == nil {
		return nil
	}
	isErr, decodes := ackIsError(st.Ack)
	fl := ts.Flights[fmt.Sprintf("%s/%s/%d", p.SourceChain, p.DestinationChain, p.Sequence)]
	isSource := st.Chain == p.SourceChain
	if !isSource || (p.Port != PortNFT && p.Port != PortMT) || !decodes || !isErr {
		if !delta.Empty() {
			sig := "tokens-changed-by-success-ack"
			if !isSource {
				sig = "tokens-changed-by-ack-on-relay"
			}
			return ts.viol(sig, fmt.Sprintf("ack changed tokens: %s; %s", delta, st.Describe()))
		}
		return nil
	}
	// error ack processed on the source: exact refund
	if fl == nil || !bytesEq(fl.Rec.P.Data, p.Data) {
		ts.Tainted = true
		return nil
	}
	s.Label("refund-processed")
	if fl.Status == "delivered" {
		return ts.viol("refund-after-delivery", "refund processed for a transfer that was delivered successfully: "+st.Describe())
	}
	if fl.Status == "refunded" {
		return ts.viol("refunded-twice", "transfer refunded twice: "+st.Describe())
	}
	fl.Status = "refunded"
	// the refund must be the exact inverse of what the send did
	inv := invert(fl.SendDiff)
	if delta.String() != inv.String() {
		return &Violation{refundProp(ts.Prop), "refund-not-exact", fmt.Sprintf("refund delta [%s] is not the inverse of the send delta [%s]: %s", delta, fl.SendDiff, st.Describe())}
	}
	return nil
}

func refundProp(p string) string { return p }

func invert(d tokenDelta) tokenDelta {
	out := tokenDelta{NFTRemoved: d.NFTAdded, NFTAdded: d.NFTRemoved, MTBal: map[string]*big.Int{}, MTSup: map[string]*big.Int{}}
	for k, v := range d.MTBal {
		out.MTBal[k] = new(big.Int).Neg(v)
	}
	for k, v := range d.MTSup {
		out.MTSup[k] = new(big.Int).Neg(v)
	}
	return out
}

// CheckNFTConservation: every live native NFT has exactly one holder (a user somewhere, or a packet in flight).
func CheckNFTConservation(ts *TokenState) func(*Sim, *Step) *Violation {
	return func(s *Sim, st *Step) *Violation {
		if ts.Tainted || st.Chain == "" {
			return nil
		}
		held := map[Ident][]string{}
		for _, name := range s.W.Order {
			c := s.W.Chains[name]
			for _, n := range SnapTokens(c).NFTs {
				info, ok := ts.NFTInst[instKey(name, n.Class, n.ID)]
				if !ok {
					if n.Owner == NFTEscrow {
						continue
					}
					return ts.viol("nft-from-nowhere", fmt.Sprintf("instance %s/%s on %s held by %s came into existence neither by a native mint nor against a delivered packet, after %s", shortClass(n.Class), n.ID, short(name), shortAddr(n.Owner), st.Describe()))
				}
				id, trail := info.Ident, info.Trail
				if trail[len(trail)-1] != name {
					return ts.viol("voucher-trail-not-ending-here", fmt.Sprintf("class path of %s on %s ends elsewhere: %v", n.Class, name, trail))
				}
				if n.Owner == NFTEscrow {
					continue
				}
				held[id] = append(held[id], fmt.Sprintf("%s:%s@%s", short(name), shortClass(n.Class), shortAddr(n.Owner)))
			}
		}
		flying := map[Ident]int{}
		for _, k := range sortedFlights(ts.Flights) {
			fl := ts.Flights[k]
			if fl.Kind == "nft" && fl.Status == "inflight" {
				flying[fl.Ident]++
			}
		}
		ids := make([]Ident, 0, len(ts.NFTLive))
		for id := range ts.NFTLive {
			ids = append(ids, id)
		}
		sort.Slice(ids, func(i, j int) bool { return ids[i].String() < ids[j].String() })
		multi := 0
		for _, id := range ids {
			n := len(held[id]) + flying[id]
			if n != 1 {
				sig := "nft-duplicated"
				if n == 0 {
					sig = "nft-lost"
				}
				return ts.viol(sig, fmt.Sprintf("native nft %v has %d holders (user-held %v, in flight %d) after %s", id, n, held[id], flying[id], st.Describe()))
			}
			if flying[id] > 0 {
				multi++
			}
		}
		// nothing user-held that is not a live native token
		for id, hs := range held {
			if !ts.NFTLive[id] {
				return ts.viol("nft-from-nowhere", fmt.Sprintf("instance(s) %v represent %v which is not a live native nft, after %s", hs, id, st.Describe()))
			}
		}
		return nil
	}
}

func sortedFlights(m map[string]*TokenFlight) []string {
	ks := make([]string, 0, len(m))
	for k := range m {
		ks = append(ks, k)
	}
	sort.Strings(ks)
	return ks
}

// CheckMTConservation: escrow == vouchers further along + in flight; user-held + in flight == minted - burned.
func CheckMTConservation(ts *TokenState) func(*Sim, *Step) *Violation {
	return func(s *Sim, st *Step) *Violation {
		if ts.Tainted || st.Chain == "" {
			return nil
		}
		type node struct {
			escrow, supply, users *big.Int
		}
		z := func() *big.Int { return new(big.Int) }
		nodes := map[string]*node{} // ident|trail
		get := func(id Ident, trail []string) *node {
			k := id.Full() + "#" + strings.Join(trail, "/")
			if nodes[k] == nil {
				nodes[k] = &node{z(), z(), z()}
			}
			return nodes[k]
		}
		userTotal := map[Ident]*big.Int{}
		for _, name := range s.W.Order {
			c := s.W.Chains[name]
			snap := SnapTokens(c)
			for _, sp := range snap.MTSups {
				id, trail, ok := identOfMT(c, sp.Class, sp.ID)
				if !ok {
					return ts.viol("voucher-class-without-trace", fmt.Sprintf("mt class %s on %s has no trace", sp.Class, name))
				}
				get(id, trail).supply.Add(get(id, trail).supply, new(big.Int).SetUint64(sp.Supply))
			}
			for _, b := range snap.MTBals {
				id, trail, ok := identOfMT(c, b.Class, b.ID)
				if !ok {
					continue
				}
				n := get(id, trail)
				if b.Owner == MTEscrow {
					n.escrow.Add(n.escrow, new(big.Int).SetUint64(b.Amt))
				} else {
					n.users.Add(n.users, new(big.Int).SetUint64(b.Amt))
					if userTotal[id] == nil {
						userTotal[id] = z()
					}
					userTotal[id].Add(userTotal[id], new(big.Int).SetUint64(b.Amt))
				}
			}
		}
		// in-flight amounts attributed to the escrow node they are backed by
		backed := map[string]*big.Int{}
		flying := map[Ident]*big.Int{}
		for _, k := range sortedFlights(ts.Flights) {
			fl := ts.Flights[k]
			if fl.Kind != "mt" || fl.Status != "inflight" {
				continue
			}
			var escTrail []string
			if fl.Away {
				escTrail = fl.Trail
			} else {
				escTrail = fl.Trail[:len(fl.Trail)-1]
			}
			bk := fl.Ident.Full() + "#" + strings.Join(escTrail, "/")
			if backed[bk] == nil {
				backed[bk] = z()
			}
			backed[bk].Add(backed[bk], new(big.Int).SetUint64(fl.Amount))
			if flying[fl.Ident] == nil {
				flying[fl.Ident] = z()
			}
			flying[fl.Ident].Add(flying[fl.Ident], new(big.Int).SetUint64(fl.Amount))
		}
		// escrow_X(T) == sum of supplies of children T+Y + in flight backed by it
		childSum := map[string]*big.Int{}
		keys := make([]string, 0, len(nodes))
		for k := range nodes {
			keys = append(keys, k)
		}
		sort.Strings(keys)
		for _, k := range keys {
			i := strings.LastIndex(k, "/")
			bar := strings.LastIndex(k, "#")
			if i < bar {
				continue // root node
			}
			parent := k[:i]
			if childSum[parent] == nil {
				childSum[parent] = z()
			}
			childSum[parent].Add(childSum[parent], nodes[k].supply)
		}
		for _, k := range keys {
			n := nodes[k]
			want := z()
			if childSum[k] != nil {
				want.Add(want, childSum[k])
			}
			if backed[k] != nil {
				want.Add(want, backed[k])
			}
			if ts.VoucherBurned[k] != nil {
				want.Add(want, ts.VoucherBurned[k])
			}
			if n.escrow.Cmp(want) != 0 {
				return ts.viol("escrow-mismatch", fmt.Sprintf("node %s: escrow %v != vouchers further along + in flight %v (children %v, in flight %v) after %s", k, n.escrow, want, childSum[k], backed[k], st.Describe()))
			}
			// supply on a chain == balances on that chain (escrow + users)
			tot := new(big.Int).Add(n.escrow, n.users)
			if tot.Cmp(n.supply) != 0 {
				return ts.viol("supply-vs-balances", fmt.Sprintf("node %s: supply %v != balances %v after %s", k, n.supply, tot, st.Describe()))
			}
		}
		for k := range childSum {
			if nodes[k] == nil && childSum[k].Sign() != 0 {
				return ts.viol("voucher-without-escrow", fmt.Sprintf("vouchers under %s exist but the parent class has no balances", k))
			}
		}
		// global: user-held + in flight == minted - burned ; nothing exceeds the minted amount
		ids := map[Ident]bool{}
		for id := range ts.MTMinted {
			ids[id] = true
		}
		for id := range userTotal {
			ids[id] = true
		}
		idl := make([]Ident, 0, len(ids))
		for id := range ids {
			idl = append(idl, id)
		}
		sort.Slice(idl, func(i, j int) bool { return idl[i].String() < idl[j].String() })
		for _, id := range idl {
			minted := ts.MTMinted[id]
			if minted == nil {
				return ts.viol("mt-from-nowhere", fmt.Sprintf("units of %v exist but were never minted natively, after %s", id, st.Describe()))
			}
			have := z()
			if userTotal[id] != nil {
				have.Add(have, userTotal[id])
			}
			if flying[id] != nil {
				have.Add(have, flying[id])
			}
			want := new(big.Int).Set(minted)
			if ts.MTBurned[id] != nil {
				want.Sub(want, ts.MTBurned[id])
			}
			if have.Cmp(want) != 0 {
				return ts.viol("mt-supply-not-conserved", fmt.Sprintf("%v: user-held + in flight = %v, minted - burned = %v, after %s", id, have, want, st.Describe()))
			}
		}
		for _, k := range keys {
			bar := strings.LastIndex(k, "#")
			for _, id := range idl {
				if id.Full() == k[:bar] {
					if nodes[k].supply.Cmp(ts.MTMinted[id]) > 0 {
						return ts.viol("mt-exceeds-minted", fmt.Sprintf("node %s supply %v exceeds native mint %v", k, nodes[k].supply, ts.MTMinted[id]))
					}
				}
			}
		}
		return nil
	}
}

// CheckErrorAckFootprint (C19): a receive answered with an error ack leaves in the tibc store exactly
// the receipt, the ack and the max-ack marker.
func CheckErrorAckFootprint(prop string) func(*Sim, *Step) *Violation {
	return func(s *Sim, st *Step) *Violation {
		if st.Kind != "recv" || !st.OK || st.Packet == nil {
			return nil
		}
		was := world.AcksFromEvents(st.Res.Events)
		if len(was) != 1 {
			return nil
		}
		isErr, ok := ackIsError(was[0].Ack)
		if !ok || !isErr {
			return nil
		}
		p := st.Packet
		c := s.W.Chains[st.Chain]
		allowed := map[string]bool{
			string(host.PacketReceiptKey(p.SourceChain, p.DestinationChain, p.Sequence)):         false,
			string(host.PacketAcknowledgementKey(p.SourceChain, p.DestinationChain, p.Sequence)): false,
			string(host.MaxAckSeqKey(p.SourceChain, p.DestinationChain)):                         true,
		}
		for _, kd := range DiffStore(c, "tibc", st.HBefore, st.HBefore+1) {
			seen, ok := allowed[kd.Key]
			_ = seen
			if !ok {
				return &Violation{prop, "error-ack-extra-packet-state", fmt.Sprintf("error-acked receive wrote %q: %s", kd.Key, st.Describe())}
			}
			allowed[kd.Key] = true
		}
		for k, seen := range allowed {
			if !seen {
				return &Violation{prop, "error-ack-missing-receipt-or-ack", fmt.Sprintf("error-acked receive did not write %q: %s", k, st.Describe())}
			}
		}
		if st.Chain == p.DestinationChain {
			s.Label("error-ack-on-dest:" + p.Port)
		} else {
			s.Label("error-ack-on-relay")
		}
		// token state untouched
		before, after := SnapTokensAt(c, st.HBefore), SnapTokensAt(c, st.HAfter)
		if d := diffTokens(before, after); !d.Empty() {
			return &Violation{prop, "error-ack-with-token-effects", fmt.Sprintf("error-acked receive changed tokens: %s; %s", d, st.Describe())}
		}
		return nil
	}
}
