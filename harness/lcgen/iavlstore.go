package lcgen

import (
	"fmt"

	"cosmossdk.io/log"
	"cosmossdk.io/store/metrics"
	"cosmossdk.io/store/rootmulti"
	storetypes "cosmossdk.io/store/types"
	dbm "github.com/cosmos/cosmos-db"

	commitmenttypes "github.com/bianjieai/tibc-go/modules/tibc/core/23-commitment/types"
)

// IAVLChain is a real multistore with one IAVL substore named like the tibc module store, committed
// version by version, from which ICS-23 proofs against each version's root are queried.
type IAVLChain struct {
	ms    *rootmulti.Store
	key   *storetypes.KVStoreKey
	Roots map[int64][]byte // version -> multistore root (app hash)
	KV    map[int64]map[string][]byte
	cur   map[string][]byte
}

func NewIAVLChain(storeName string) *IAVLChain {
	db := dbm.NewMemDB()
	ms := rootmulti.NewStore(db, log.NewNopLogger(), metrics.NewNoOpMetrics())
	key := storetypes.NewKVStoreKey(storeName)
	ms.MountStoreWithDB(key, storetypes.StoreTypeIAVL, nil)
	// a second store so that the multistore proof is not trivial
	other := storetypes.NewKVStoreKey("other")
	ms.MountStoreWithDB(other, storetypes.StoreTypeIAVL, nil)
	if err := ms.LoadLatestVersion(); err != nil {
		panic(err)
	}
	ms.GetKVStore(other).Set([]byte("x"), []byte("y"))
	return &IAVLChain{ms: ms, key: key, Roots: map[int64][]byte{}, KV: map[int64]map[string][]byte{}, cur: map[string][]byte{}}
}

func (c *IAVLChain) Set(k, v []byte) {
	c.ms.GetKVStore(c.key).Set(k, v)
	c.cur[string(k)] = append([]byte{}, v...)
}

func (c *IAVLChain) Delete(k []byte) {
	c.ms.GetKVStore(c.key).Delete(k)
	delete(c.cur, string(k))
}

// Commit returns the new version.
func (c *IAVLChain) Commit() int64 {
	id := c.ms.Commit()
	c.Roots[id.Version] = append([]byte{}, id.Hash...)
	snap := map[string][]byte{}
	for k, v := range c.cur {
		snap[k] = v
	}
	c.KV[id.Version] = snap
	return id.Version
}

// Proof returns the marshalled MerkleProof of key at version (existence or absence).
func (c *IAVLChain) Proof(key []byte, version int64, marshal func(*commitmenttypes.MerkleProof) ([]byte, error)) ([]byte, error) {
	res, err := c.ms.Query(&storetypes.RequestQuery{Path: fmt.Sprintf("/%s/key", c.key.Name()), Data: key, Height: version, Prove: true})
	if err != nil {
		return nil, err
	}
	if res.Code != 0 {
		return nil, fmt.Errorf("query: %s", res.Log)
	}
	mp, err := commitmenttypes.ConvertProofs(res.ProofOps)
	if err != nil {
		return nil, err
	}
	return marshal(&mp)
}
