package lcgen

import (
	"math/big"

	"github.com/ethereum/go-ethereum/common"
	"github.com/ethereum/go-ethereum/consensus/ethash"
	"github.com/ethereum/go-ethereum/consensus/misc"
	gethtypes "github.com/ethereum/go-ethereum/core/types"
	"github.com/ethereum/go-ethereum/params"

	clienttypes "github.com/bianjieai/tibc-go/modules/tibc/core/02-client/types"
	ethtypes "github.com/bianjieai/tibc-go/modules/tibc/light-clients/09-eth/types"
)

// LondonConfig activates every fork up to London at block 0 (and nothing later), the rule set the
// ETH client implements (EIP-1559 base fee, EIP-3554 difficulty bomb delay).
var LondonConfig = &params.ChainConfig{
	ChainID:             big.NewInt(1),
	HomesteadBlock:      big.NewInt(0),
	EIP150Block:         big.NewInt(0),
	EIP155Block:         big.NewInt(0),
	EIP158Block:         big.NewInt(0),
	ByzantiumBlock:      big.NewInt(0),
	ConstantinopleBlock: big.NewInt(0),
	PetersburgBlock:     big.NewInt(0),
	IstanbulBlock:       big.NewInt(0),
	MuirGlacierBlock:    big.NewInt(0),
	BerlinBlock:         big.NewInt(0),
	LondonBlock:         big.NewInt(0),
	Ethash:              new(params.EthashConfig),
}

// EthGenesis is the synthetic starting header of a generated tree.
func EthGenesis(number, time, gasLimit, gasUsed uint64, difficulty, baseFee int64) *ethtypes.Header {
	return &ethtypes.Header{
		ParentHash:  common.HexToHash("0x1234").Bytes(),
		UncleHash:   gethtypes.EmptyUncleHash.Bytes(),
		Coinbase:    common.HexToAddress("0xc0ffee").Bytes(),
		Root:        common.HexToHash("0xaa").Bytes(),
		TxHash:      gethtypes.EmptyRootHash.Bytes(),
		ReceiptHash: gethtypes.EmptyRootHash.Bytes(),
		Bloom:       make([]byte, 256),
		Difficulty:  big.NewInt(difficulty).String(),
		Height:      clienttypes.NewHeight(0, number),
		GasLimit:    gasLimit,
		GasUsed:     gasUsed,
		Time:        time,
		Extra:       []byte("verif"),
		MixDigest:   make([]byte, 32),
		Nonce:       0,
		BaseFee:     big.NewInt(baseFee).String(),
	}
}

// ToGeth converts the client's header type into go-ethereum's.
func ToGeth(h *ethtypes.Header) *gethtypes.Header {
	d, _ := new(big.Int).SetString(h.Difficulty, 10)
	b, _ := new(big.Int).SetString(h.BaseFee, 10)
	return &gethtypes.Header{
		ParentHash:  common.BytesToHash(h.ParentHash),
		UncleHash:   common.BytesToHash(h.UncleHash),
		Coinbase:    common.BytesToAddress(h.Coinbase),
		Root:        common.BytesToHash(h.Root),
		TxHash:      common.BytesToHash(h.TxHash),
		ReceiptHash: common.BytesToHash(h.ReceiptHash),
		Bloom:       gethtypes.BytesToBloom(h.Bloom),
		Difficulty:  d,
		Number:      new(big.Int).SetUint64(h.Height.RevisionHeight),
		GasLimit:    h.GasLimit,
		GasUsed:     h.GasUsed,
		Time:        h.Time,
		Extra:       h.Extra,
		MixDigest:   common.BytesToHash(h.MixDigest),
		Nonce:       gethtypes.EncodeNonce(h.Nonce),
		BaseFee:     b,
	}
}

// EthChild builds the valid child of parent for the given time, gas limit and gas used: difficulty and
// base fee come from go-ethereum's consensus functions.
func EthChild(parent *ethtypes.Header, time, gasLimit, gasUsed uint64, root common.Hash, salt byte) *ethtypes.Header {
	pg := ToGeth(parent)
	diff := ethash.CalcDifficulty(LondonConfig, time, pg)
	base := misc.CalcBaseFee(LondonConfig, pg)
	return &ethtypes.Header{
		ParentHash:  pg.Hash().Bytes(),
		UncleHash:   gethtypes.EmptyUncleHash.Bytes(),
		Coinbase:    common.HexToAddress("0xc0ffee").Bytes(),
		Root:        root.Bytes(),
		TxHash:      gethtypes.EmptyRootHash.Bytes(),
		ReceiptHash: gethtypes.EmptyRootHash.Bytes(),
		Bloom:       make([]byte, 256),
		Difficulty:  diff.String(),
		Height:      clienttypes.NewHeight(0, parent.Height.RevisionHeight+1),
		GasLimit:    gasLimit,
		GasUsed:     gasUsed,
		Time:        time,
		Extra:       []byte{salt},
		MixDigest:   make([]byte, 32),
		Nonce:       0,
		BaseFee:     base.String(),
	}
}

// GasLimitOK is go-ethereum's gas-limit rule.
func GasLimitOK(parentGasLimit, gasLimit uint64) bool {
	return misc.VerifyGaslimit(parentGasLimit, gasLimit) == nil
}
