// Package lcgen builds light-client inputs: real Merkle-Patricia account + storage proofs
// (go-ethereum trie), Parlia header chains and Ethereum header trees.
package lcgen

import (
	"encoding/json"
	"math/big"
	"sort"

	"github.com/ethereum/go-ethereum/common"
	"github.com/ethereum/go-ethereum/common/hexutil"
	"github.com/ethereum/go-ethereum/crypto"
	"github.com/ethereum/go-ethereum/ethdb/memorydb"
	"github.com/ethereum/go-ethereum/light"
	"github.com/ethereum/go-ethereum/rlp"
	"github.com/ethereum/go-ethereum/trie"
)

// Account is one contract account of the synthetic Ethereum-style state.
type Account struct {
	Addr     common.Address
	Nonce    uint64
	Balance  *big.Int
	CodeHash common.Hash
	// Storage maps a slot to its 32-byte word (leading zeros are trimmed in the trie, as the EVM does).
	Storage map[common.Hash][]byte
}

// State is a committed state: account trie over accounts, one storage trie per account.
type State struct {
	Root     common.Hash
	accounts map[common.Address]*Account
	acctTrie *trie.Trie
	storage  map[common.Address]*trie.Trie
}

type rlpAccount struct {
	Nonce    *big.Int
	Balance  *big.Int
	Storage  common.Hash
	Codehash common.Hash
}

func newTrie() *trie.Trie {
	t, err := trie.New(common.Hash{}, trie.NewDatabase(memorydb.New()))
	if err != nil {
		panic(err)
	}
	return t
}

// BuildState commits the accounts and returns the state.
func BuildState(accts []*Account) *State {
	st := &State{accounts: map[common.Address]*Account{}, acctTrie: newTrie(), storage: map[common.Address]*trie.Trie{}}
	for _, a := range accts {
		stt := newTrie()
		slots := make([]common.Hash, 0, len(a.Storage))
		for s := range a.Storage {
			slots = append(slots, s)
		}
		sort.Slice(slots, func(i, j int) bool { return slots[i].Hex() < slots[j].Hex() })
		for _, s := range slots {
			v := common.TrimLeftZeroes(a.Storage[s])
			if len(v) == 0 {
				continue // zero words are not stored
			}
			enc, _ := rlp.EncodeToBytes(v)
			stt.Update(crypto.Keccak256(s.Bytes()), enc)
		}
		st.storage[a.Addr] = stt
		bal := a.Balance
		if bal == nil {
			bal = new(big.Int)
		}
		enc, err := rlp.EncodeToBytes(&rlpAccount{Nonce: new(big.Int).SetUint64(a.Nonce), Balance: bal, Storage: stt.Hash(), Codehash: a.CodeHash})
		if err != nil {
			panic(err)
		}
		st.acctTrie.Update(crypto.Keccak256(a.Addr.Bytes()), enc)
		st.accounts[a.Addr] = a
	}
	st.Root = st.acctTrie.Hash()
	return st
}

// StorageResult / Proof mirror the JSON shape the BSC and ETH clients parse.
type StorageResult struct {
	Key   string   `json:"key,omitempty"`
	Value string   `json:"value,omitempty"`
	Proof []string `json:"proof,omitempty"`
}

type Proof struct {
	Address      string           `json:"address,omitempty"`
	Balance      string           `json:"balance,omitempty"`
	CodeHash     string           `json:"code_hash,omitempty"`
	Nonce        string           `json:"nonce,omitempty"`
	StorageHash  string           `json:"storage_hash,omitempty"`
	AccountProof []string         `json:"account_proof,omitempty"`
	StorageProof []*StorageResult `json:"storage_proof,omitempty"`
}

func (p *Proof) Bytes() []byte {
	bz, err := json.Marshal(p)
	if err != nil {
		panic(err)
	}
	return bz
}

func nodesHex(nl light.NodeList) []string {
	out := make([]string, 0, len(nl))
	for _, n := range nl {
		out = append(out, hexutil.Encode(n))
	}
	return out
}

// Prove returns the eth_getProof-style proof of one storage slot of one account.
func (st *State) Prove(addr common.Address, slot common.Hash) *Proof {
	a := st.accounts[addr]
	var anl light.NodeList
	if err := st.acctTrie.Prove(crypto.Keccak256(addr.Bytes()), 0, &anl); err != nil {
		panic(err)
	}
	p := &Proof{Address: addr.Hex(), AccountProof: nodesHex(anl)}
	if a == nil {
		p.Balance, p.Nonce = "0x0", "0x0"
		p.CodeHash = common.Hash{}.Hex()
		p.StorageHash = common.Hash{}.Hex()
		p.StorageProof = []*StorageResult{{Key: slot.Hex(), Value: "0x0"}}
		return p
	}
	stt := st.storage[addr]
	bal := a.Balance
	if bal == nil {
		bal = new(big.Int)
	}
	p.Balance = hexutil.EncodeBig(bal)
	p.Nonce = hexutil.EncodeUint64(a.Nonce)
	p.CodeHash = a.CodeHash.Hex()
	p.StorageHash = stt.Hash().Hex()
	var snl light.NodeList
	if err := stt.Prove(crypto.Keccak256(slot.Bytes()), 0, &snl); err != nil {
		panic(err)
	}
	val := a.Storage[slot]
	p.StorageProof = []*StorageResult{{Key: slot.Hex(), Value: hexutil.Encode(common.TrimLeftZeroes(val)), Proof: nodesHex(snl)}}
	return p
}

// Word left-pads b to a 32-byte storage word.
func Word(b []byte) []byte { return common.LeftPadBytes(b, 32) }
