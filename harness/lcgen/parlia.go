package lcgen

import (
	"bytes"
	"crypto/ecdsa"
	"fmt"
	"math/big"
	"sort"

	"github.com/ethereum/go-ethereum/common"
	gethtypes "github.com/ethereum/go-ethereum/core/types"
	"github.com/ethereum/go-ethereum/crypto"
	"github.com/ethereum/go-ethereum/rlp"
	"golang.org/x/crypto/sha3"

	clienttypes "github.com/bianjieai/tibc-go/modules/tibc/core/02-client/types"
	bsctypes "github.com/bianjieai/tibc-go/modules/tibc/light-clients/08-bsc/types"
)

const (
	ExtraVanity = 32
	ExtraSeal   = 65
)

// ParliaKey is a deterministic secp256k1 validator key.
type ParliaKey struct {
	Priv *ecdsa.PrivateKey
	Addr common.Address
}

// ParliaKeys returns n deterministic keys.
func ParliaKeys(n int) []ParliaKey {
	out := make([]ParliaKey, 0, n)
	for i := 0; i < n; i++ {
		seed := crypto.Keccak256([]byte(fmt.Sprintf("verif/parlia/%d", i)))
		k, err := crypto.ToECDSA(seed)
		if err != nil {
			panic(err)
		}
		out = append(out, ParliaKey{Priv: k, Addr: crypto.PubkeyToAddress(k.PublicKey)})
	}
	return out
}

// SortAddrs sorts addresses ascending (Parlia's validator order).
func SortAddrs(a []common.Address) []common.Address {
	out := append([]common.Address{}, a...)
	sort.Slice(out, func(i, j int) bool { return bytes.Compare(out[i][:], out[j][:]) < 0 })
	return out
}

// ParliaSealHash is the hash a Parlia validator signs: keccak256(rlp([chainId, all header fields with the
// 65 seal bytes cut off the extra data])).
func ParliaSealHash(h *bsctypes.Header, chainID uint64) common.Hash {
	hasher := sha3.NewLegacyKeccak256()
	err := rlp.Encode(hasher, []interface{}{
		new(big.Int).SetUint64(chainID),
		h.ParentHash, h.UncleHash, h.Coinbase, h.Root, h.TxHash, h.ReceiptHash, h.Bloom,
		h.Difficulty, h.Height.RevisionHeight, h.GasLimit, h.GasUsed, h.Time,
		h.Extra[:len(h.Extra)-ExtraSeal], h.MixDigest, h.Nonce,
	})
	if err != nil {
		panic(err)
	}
	var out common.Hash
	hasher.Sum(out[:0])
	return out
}

// NewParliaHeader builds an unsealed header: extra = vanity | validators (epoch blocks) | 65 zero bytes.
func NewParliaHeader(number uint64, parent common.Hash, coinbase common.Address, difficulty, gasLimit, gasUsed, time uint64, root common.Hash, vals []common.Address) *bsctypes.Header {
	extra := make([]byte, ExtraVanity)
	for _, v := range vals {
		extra = append(extra, v.Bytes()...)
	}
	extra = append(extra, make([]byte, ExtraSeal)...)
	return &bsctypes.Header{
		ParentHash:  parent.Bytes(),
		UncleHash:   gethtypes.EmptyUncleHash.Bytes(),
		Coinbase:    coinbase.Bytes(),
		Root:        root.Bytes(),
		TxHash:      gethtypes.EmptyRootHash.Bytes(),
		ReceiptHash: gethtypes.EmptyRootHash.Bytes(),
		Bloom:       make([]byte, 256),
		Difficulty:  difficulty,
		Height:      clienttypes.NewHeight(0, number),
		GasLimit:    gasLimit,
		GasUsed:     gasUsed,
		Time:        time,
		Extra:       extra,
		MixDigest:   make([]byte, 32),
		Nonce:       make([]byte, 8),
	}
}

// Seal signs the header in place with key.
func Seal(h *bsctypes.Header, chainID uint64, key ParliaKey) {
	sig, err := crypto.Sign(ParliaSealHash(h, chainID).Bytes(), key.Priv)
	if err != nil {
		panic(err)
	}
	copy(h.Extra[len(h.Extra)-ExtraSeal:], sig)
}
