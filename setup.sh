#!/bin/sh
# Offline setup: pre-build the harness test binary against /repo's current tree (warms the Go build cache).
set -e
cd "$(dirname "$0")"
export GOFLAGS=-mod=mod GOPROXY=off GOSUMDB=off GOTOOLCHAIN=local
cat /repo/go.sum harness/go.sum.extra > harness/go.sum
(cd harness && go test -c -tags verif -o /dev/null ./props)
echo setup ok
