#!/bin/bash
# Runs every claimed check in the thorough tier, one after the other; prints one line per check.
cd "$(dirname "$0")/.."
[ -n "$VP_RUN_REPO" ] && export VERIF_REPO="$VP_RUN_REPO"
for p in "$@"; do
  /usr/bin/time -f "%es" ./check $p --tier thorough 2>&1 | grep -E "^(OK|VIOLATION|INCONCLUSIVE|KNOWN|signature|message|[0-9.]+s$)" | cut -c1-400
  cp evidence/$p.json evidence-thorough-$p.json 2>/dev/null
done
