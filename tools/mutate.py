#!/usr/bin/env python3
"""tools/mutate.py <name> -- apply a named hand-written mutation to /repo, run the listed checks (quick tier),
revert, report.  Mutations live in tools/mutations.json: {name: {file, old, new, checks:[...]}}"""
import json, subprocess, sys, os, time
ROOT=os.path.dirname(os.path.dirname(os.path.abspath(__file__)))
M=json.load(open(os.path.join(ROOT,'tools','mutations.json')))
names=sys.argv[1:] or list(M)
for name in names:
    m=M[name]
    edits=m.get('edits') or [m]
    ok=True
    try:
        for e in edits:
            p=os.path.join('/repo',e['file'])
            s=open(p).read()
            if s.count(e['old'])!=1:
                print(f"{name}: pattern occurs {s.count(e['old'])} times in {e['file']}"); ok=False; break
            open(p,'w').write(s.replace(e['old'],e['new']))
        if not ok: continue
        for c in m['checks']:
            t0=time.time()
            r=subprocess.run([os.path.join(ROOT,'check'),c,'--tier','quick'],stdout=subprocess.PIPE,stderr=subprocess.STDOUT,text=True)
            lines=[l for l in r.stdout.splitlines() if l.startswith(('VIOLATION','OK','INCONCLUSIVE','signature','KNOWN'))]
            print(f"{name:40s} {c} exit={r.returncode} {time.time()-t0:5.0f}s  {' | '.join(lines)[:300]}")
    finally:
        subprocess.run(['git','-C','/repo','checkout','--','.'])
