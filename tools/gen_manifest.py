#!/usr/bin/env python3
"""Regenerates /verif/MANIFEST.json from the table below (claimed checks only; the rest is listed
under not_applicable with the reason given)."""
import json, os, subprocess
ROOT = os.path.dirname(os.path.dirname(os.path.abspath(__file__)))

WORLD = "property-based testing (rapid): generated operation lists interpreted over 2-4 real simapp chains with real IAVL proofs and signed Tendermint headers; oracle reads ground truth from committed store versions / an independent ledger; failures shrink to a replayable op list"
T = {
 "C01": ("Every accepted MsgRecvPacket in generated histories (16 alterations of genuine messages, any relay order) is compared with the commitment actually present in the proving chain's committed store at the proof height; rejected messages must leave the protocol stores byte-identical. Exploration: holds on the generated cases only.", WORLD),
 "C02": ("Generated relay schedules with heavy re-submission (verbatim, fresh proofs, after cleans, on relay hops): at most one accepted receive per (chain,src,dst,seq), and genuine undelivered uncleaned packets must be accepted. Exploration.", WORLD),
 "C03": ("Generated acknowledgement messages (genuine, 14 kinds of forgery, duplicates): accept only with own commitment and the prover's committed ack hash; commitment deleted; ack hashes never overwritten; keeper refuses empty / second acks. Exploration.", WORLD),
 "C04": ("Independent token ledger over generated NFT histories: exactly one holder per live native NFT across all chains (class resolved through the ClassTrace query) and an exact per-step token delta rule for sends, deliveries and refunds. Exploration.", WORLD),
 "C05": ("Independent big.Int ledger over generated MT histories with amounts up to 2^64-1: escrow == vouchers one hop further + in flight at every class node, user-held + in flight == minted - burned, per-step delta rule. Exploration.", WORLD),
 "C06": ("Generated journeys (class/id strings over the token modules' alphabets, 1-3 hops, optional relay per hop, failure injected at any hop, full return): refund is the exact inverse of the send; after the return trip the origin holds the original class/id and no voucher or escrow is left anywhere. Exploration.", WORLD),
 "C07": ("Constructively generated, really signed Tendermint headers (validator sets with threshold-hitting power splits, signer subsets, times and heights around every bound) against an independent arithmetic light-client rule; state effects checked on accept and reject. Exploration.", "property-based testing (rapid): constructive header generator + independent voting-power / time oracle"),
 "C08": ("Real IAVL multistore proofs and real Merkle-Patricia account+storage proofs over generated key/value sets, with perturbed claims, proofs, heights and delays, checked against the model store for soundness and completeness on all three client types. Exploration.", "property-based testing (rapid) over real proof builders; model-store oracle; native go fuzzing of proof bytes in the thorough tier"),
 "C09": ("Generated mixes of successful and failing sends from three applications: gap-free sequences, exact tibc-store delta (counter + one commitment), commitment == sha256(announced data), failure atomicity. Exploration.", WORLD),
 "C10": ("Generated clean / receive-clean requests around the interesting sequence numbers, checked against the harness's own log of acknowledged sequences and the prover's committed clean point; exact store delta; monotone clean points; nothing at or below a clean point is ever accepted again. Exploration.", WORLD),
 "C11": ("Generated three- and four-chain histories with rule sets on the relay chain: re-commit iff allowed and destination known, error ack otherwise, acks pass unchanged, relay chain's token and application stores never change, and a metamorphic twin world with direct routes ends in the same token state. Exploration.", WORLD + "; metamorphic relation relay-route == direct-route"),
 "C12": ("Rule lists and triples over the full permitted alphabet, weighted to regexp metacharacters, against an independent split-and-compare implementation, through the keeper and through MsgSetRoutingRules. Exploration (about 10^5 cases per quick run).", "property-based testing (rapid): reference-model comparison on generated strings"),
 "C13": ("Genuine committed packets re-presented with an altered port or relay chain (and the proof the altered message needs) in receive and acknowledgement messages; every accepted alteration is classified by signature. Exploration; the accepted alterations are known findings (commitment format does not bind port/relay).", WORLD),
 "C14": ("Client ages drawn around the trusting-period boundary in each client's own time unit, with arbitrary sub-second block times: Status, MsgUpdateClient and packet messages must agree with the arithmetic expiry rule for Tendermint, BSC and ETH clients. Exploration.", "property-based testing (rapid): boundary-focused generators + arithmetic oracle"),
 "C15": ("Message type x signer class x payload x registry state: effect visible iff the signer is the authority (registered relayer for updates); refused requests leave the tibc store byte-identical; create never overwrites; upgrade never changes the client type. Exploration.", WORLD),
 "C16": ("State reached by a generated history is exported (tibc, nft, mt modules), imported into a fresh chain, and both chains get the same generated continuation: KV dumps, queries and result codes must agree. Exploration.", WORLD + "; differential original-vs-reimported"),
 "C17": ("Parlia header chains over generated validator sets (1-21) with epoch changes and single-rule corruptions, checked against a hand-written snapshot model. Exploration.", "property-based testing (rapid): constructive secp256k1-sealed header chains + reference Parlia model"),
 "C18": ("Header trees built with go-ethereum's difficulty and base-fee functions, competing branches submitted in any order, single-field perturbations; exposed consensus states must form one parent-linked chain. Seal check skipped through the build-tag hook for synthetic headers and exercised unhooked on recorded mainnet headers. Exploration.", "property-based testing (rapid): generated header trees + go-ethereum consensus functions as oracle"),
 "C19": ("High rate of failing messages at every stage including hostile packet data on the NFT/MT ports: failed messages leave tibc/nft/mt/NFT stores byte-identical; error-acked receives leave token state unchanged and write exactly receipt + ack. Exploration.", WORLD),
 "C20": ("Recorded histories (block times + tx bytes) re-executed several times in-process and in a child process with different TMPDIR/TZ/GOMAXPROCS: app hash and full tx result bytes must be identical at every block. Exploration; map-order dependence is only sampled.", WORLD + "; differential re-execution"),
}

def main():
    claimed = json.load(open(os.path.join(ROOT, "tools", "claimed.json")))
    props = [json.loads(l) for l in open(os.path.join(ROOT, "properties.jsonl"))]
    hook_commits = claimed.get("hook_commits", [])
    m = {
        "version": 1,
        "setup_cmd": "cd /verif && ./setup.sh",
        "hooks": {"guard": "verif", "enable": "go test -c -tags verif ./props (done by ./check on every run, against /repo's working tree)",
                  "baseline_off_cmd": "cd /repo && go test -vet=off -count=1 -timeout 25m ./...",
                  "source_commits": hook_commits, "add_only": True},
        "engines": [{"name": "rapid-harness", "path": "/verif/harness", "serves_properties": claimed["claimed"],
                     "kind_free_text": "pgregory.net/rapid v1.3.0 property-based tests (Go module verifharness, replace github.com/bianjieai/tibc-go => /repo); python driver ./check builds against the current tree, shards over 16 cores, merges evidence"}],
        "checks": [], "not_applicable": [],
        "notes": "All checks are generated-input search (property-based testing / fuzzing); see DESIGN.md. known_findings.json lists genuine defects (fixed or recorded).",
    }
    for p in props:
        pid = p["id"]
        if pid in claimed["claimed"]:
            text, tech = T[pid]
            m["checks"].append({
                "property_id": pid,
                "quick_cmd": "./check %s --tier quick" % pid,
                "thorough_cmd": "./check %s --tier thorough" % pid,
                "evidence_file": "/verif/evidence/%s.json" % pid,
                "replay_cmd_template": "./check %s --replay {path}" % pid,
                "engine": "rapid-harness",
                "level_claimed": {"category": "exploration", "text": text, "design_ref": "DESIGN.md section 5, " + pid},
                "level_note": "trusted base: cosmos-sdk baseapp/IAVL, CometBFT commit verification, go-ethereum trie/crypto, irismod nft/mt; the harness's own world, ledgers and models (exercised by hand-written and sub-agent mutations, see DESIGN.md section 8)",
                "technique": tech,
            })
        else:
            m["not_applicable"].append({"property_id": pid, "reason": claimed.get("reasons", {}).get(pid, "check not finished in this session; not claimed")})
    json.dump(m, open(os.path.join(ROOT, "MANIFEST.json"), "w"), indent=1)
    print("claimed:", " ".join(claimed["claimed"]))

main()
