#!/bin/bash
# tools/seedcheck.sh <dir-with-_seed> <name> <check>...  : confirm a seeded change (demo fails with / passes without),
# store it under /verif/seeded/<name>/, run the given checks against it, undo.
set -u
export GOFLAGS=-mod=mod GOPROXY=off GOSUMDB=off GOTOOLCHAIN=local
WT=$1; NAME=$2; shift 2
S=$WT/_seed
DEMO=$(python3 -c "import json;print(json.load(open('$S/meta.json')).get('demo_cmd',''))")
echo "== demo cmd: $DEMO"
cd $WT
git apply --check -R $S/patch.diff 2>/dev/null || { echo "patch not applied in worktree? applying"; git apply $S/patch.diff; }
( eval "$DEMO" ) > /tmp/seed/$NAME.with.log 2>&1; W=$?
git apply -R $S/patch.diff
( eval "$DEMO" ) > /tmp/seed/$NAME.without.log 2>&1; WO=$?
git apply $S/patch.diff
echo "== demo exit with change: $W (want !=0), without: $WO (want 0)"
mkdir -p /verif/seeded/$NAME && cp $S/patch.diff $S/meta.json /verif/seeded/$NAME/ && cp $S/*_test.go /verif/seeded/$NAME/ 2>/dev/null
cd /verif
git -C /repo apply $S/patch.diff || { echo "patch does not apply to /repo"; exit 1; }
for c in "$@"; do
  ./check $c --tier quick > /tmp/seed/$NAME.$c.log 2>&1; echo "== check $c exit=$? : $(grep -E '^(VIOLATION|OK|INCONCLUSIVE|signature)' /tmp/seed/$NAME.$c.log | tr '\n' ' ' | cut -c1-300)"
done
git -C /repo checkout -- .
git -C /repo status --short | head -3
