#!/bin/bash
# Re-run every claimed check (quick tier, VERIF_SEED=1) on the current tree so that the committed
# evidence files describe clean runs. Refuses to run when /repo has uncommitted changes.
cd "$(dirname "$0")/.."
if [ -n "$(git -C /repo status --porcelain)" ]; then echo "/repo is dirty"; exit 1; fi
for p in $(python3 -c "import json;print(' '.join(json.load(open('tools/claimed.json'))['claimed']))"); do
  VERIF_SEED=1 ./check $p --tier quick | grep -E "^(OK|VIOLATION|INCONCLUSIVE)" 
done
